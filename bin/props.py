"""Per-property configuration of bin/check."""

TRUSTED_BASE = [
    'Coq 8.16.1 kernel (coqc; vm_compute used, native_compute not used)',
    'axioms: none (Print Assumptions under every property theorem: Closed under the global context)',
    'extraction: ExtrOcamlBasic only (bool, option, unit, list, prod, sumbool -> OCaml); no Extract Constant/Inductive of our own; N/Z/positive/nat stay inductive',
    'OCaml 4.13.1 compiler and ocaml/driver.ml (parsing/printing only)',
    'Go harness (generators, canonicalisation) and harness/cmd/extract (table translator)',
]

P = {}

import re as _re, subprocess as _sp, os as _os

def eval_with_defs(root, proof_files, evals, tag):
    """Witness search: the definitions of coq/Proofs/<file>.v with every Theorem/Lemma block removed
    (the failing obligation would not compile), followed by Eval commands; returns coqc's output."""
    src = ''
    for pf in proof_files:
        t = open(_os.path.join(root, 'coq', 'Proofs', pf + '.v')).read()
        t = _re.sub(r'(?ms)^(Theorem|Lemma|Corollary)\b.*?\b(Qed|Defined)\.', '', t)
        src += t + '\n'
    src += '\n'.join(evals) + '\n'
    p = _os.path.join(root, '.work', 'findbad_%s.v' % tag)
    open(p, 'w').write(src)
    out = _sp.run('timeout 900 coqc -Q coq GM ' + p, shell=True, cwd=root, stdout=_sp.PIPE, stderr=_sp.STDOUT).stdout.decode()
    return ' '.join(out.split())


P['C02'] = dict(
    rule='x25: every 2-byte prefix (reaches each of the 2^16 register states once) and third bytes (3 random per state in quick, all 256 in thorough), random strings hashed in random splits; gate: valid frames of sampled common-dialect messages and of every message of a user-defined dialect (one-element arrays, one-character strings, extensions, enums, the 255-byte message; CRC_EXTRA of each definition compared first), v1 and v2, with every single-bit flip (a random third of them on the user dialect), byte substitutions and multi-byte damage, read by a dialect-configured frame.Reader. A case is non-trivial when the model output is not a bare rejection; distinct = distinct case lines.; the user dialect has messages with ids 254, 255, 256, 65535, 65536 and 2^24-1, and a missing codec for a message of the dialect is a verdict of its own; a Node created, closed, and a second Node created with the same dialect value after the application redefined one message and added another: frames valid under the new definitions delivered, a frame valid under the old definition and a damaged frame refused; a frame.ReadWriter value initialised twice (first without a dialect or with another one): it gates by the dialect of the second initialisation',
    assumptions=['the transport returns data or an error per Read call, never both',
                 'model of bufio.Reader (Model/Stream.v) stands for the Go standard library'],
    mismatch_meaning='the implementation\'s checksum / gate result differs from the model proved equal to CRC-16/MCRF4XX and to the gate specification: a concrete input on which the property fails',
)

P['C01'] = dict(
    rule='frames built from boundary-value field tuples (header bytes {0,1,7f,80,fd,fe,ff}, ids {0,1,255,256,0x607,0xffff,0x10000,0xfffffe,0xffffff}, payload lengths {0,1,2,3,254,255}, timestamps around 2^24/2^32/2^40/2^48) mixed with random values, 2 versions x signed/unsigned; each written by frame.Writer.Write (bytes, number of transport writes, frame after the call) and read back by frame.Reader in one chunk or a random split followed by a junk byte. Non-trivial: the model output is not a bare rejection.; streams in which a completely parsed, then refused frame (signed v2 or v1 with a wrong checksum, dialect minimal) is followed by valid unsigned frames, read in one chunk and in a random split; twelve streams of seven frames of one message type (all-ones / zero / random values); everything a reader returned is rendered 300 cases later',
    assumptions=['bufio.Reader modelled by Model/Stream.v', 'domain of the property: payload <= 255 bytes, v2 ids < 2^24 (larger values are emitted truncated by the code and are not checked)'],
    mismatch_meaning='bytes emitted or frame read back differ from the model proved equal to the MAVLink layout and to round-trip: a concrete frame on which the property fails',
)

P['C06'] = dict(
    rule='signed v2 frames (dialect messages and raw ids, random and all-zero keys) x every single-bit alteration of every byte, a fresh wrong key, a key differing in one bit, the unsigned v2 and the v1 rendering of the same message, read by a keyed frame.Reader; histories of writes through streamwriter.Writer and frame.Writer.WriteMessage with an outgoing key (timestamp read from the wire, bracketed by two clock reads, handed to the model as the clock reading; bytes incl. signature must equal the model\'s). Non-trivial: model output not a bare rejection.; six keys made from a buffer the caller overwrites before the key is used',
    assumptions=['SHA-256 is modelled in Gallina (Model/Sha256.v, compared with crypto/sha256 through every signature of the run)',
                 'that an altered or foreign-key frame does not collide on the 48-bit SHA-256 prefix is a cryptographic assumption, not proved'],
    mismatch_meaning='a frame was delivered / refused / signed differently from the model proved to implement the signing rule: concrete failing frame',
)
P['C07'] = dict(
    rule='all sequences over the timestamp alphabet {0,1,5,999999,10^6,10^6+1,2*10^6-1,2*10^6,2*10^6+1,2^47,2^48-10^6-1,2^48-10^6,2^48-1} up to length 3 (quick) / 4 (thorough), random walks of length 4..15 with steps around the window edge; every frame correctly signed; result sequence of a keyed frame.Reader compared with the model; outgoing timestamps of keyed writers bracketed by clock reads and checked non-decreasing. Non-trivial: at least one frame accepted.; the same reader hearing several senders (system / component / link ids differ): all pairs over the boundary alphabet from two senders, random walks over six senders — one newest timestamp whoever sent it; all pairs over the boundary alphabet through a keyed reader whose dialect does not contain the message of the frames',
    assumptions=['time.Since is monotone (Go monotonic clock)'],
    mismatch_meaning='the reader accepted or refused a correctly signed frame differently from the proved window function: concrete timestamp history',
)
P['C09'] = dict(
    rule='all 54 small initialisation configurations; write histories of 300..700 messages (beyond the 256 wrap) mixing decoded and raw messages, rejected writes (raw id outside the dialect, ids above 255 on v1) at random positions, over random configurations (version, system id, component id incl. 0, key, link id) through streamwriter.Writer and frame.Writer.WriteMessage; every emitted byte string (header fields, sequence number, checksum, signature) must equal the model\'s. Non-trivial: model output not a bare rejection.; plus histories of 10..50 messages written through a real Node (custom endpoint, OutVersion 1 and 2, random ids) whose wire bytes must equal the same model\'s; the 54 initialisation configurations also through Node.Initialize; every third node of the node histories has an incoming key only',
    assumptions=[],
    mismatch_meaning='an originated frame differs from the model proved to carry the configured identity, gapless sequence numbers and correct checksum: concrete write history',
)

P['C05'] = dict(
    rule='bounded-exhaustive: every stream over the alphabet {FE,FD,00,01,02,FF} up to length 5 (quick) / 7 (thorough) x every segmentation into transport reads (random segmentations above length 5), plus a transport error injected at every offset of the short ones; structured streams of 1..4 valid / truncated / corrupted frames (v1, v2, signed, dialect and raw) separated by junk (sometimes containing marker bytes) read whole, in two random splits, byte by byte, and with a transport error at every byte offset; compared: the whole result sequence and the number of stream items consumed by every call. Non-trivial: model output not a bare rejection.; every structured stream is also read through a keyed reader (v1, unsigned and foreign-key frames must be refused after consuming the whole frame); dialect frames with a correct checksum and a payload of the wrong length (v1 shorter / longer, v2 longer) inside the structured streams; the same refused-then-accepted streams',
    assumptions=['the transport returns data or an error per Read call, never both, and never an empty read', 'bufio.Reader modelled by Model/Stream.v'],
    mismatch_meaning='result sequence or per-call consumption differs from the model proved total, progressing and split-independent: concrete stream and segmentation',
)

def find_bad_struct(root):
    out = eval_with_defs(root, ['TableLayout'],
                         ['Eval vm_compute in (find_bad_struct structs).',
                          'Eval vm_compute in (map (fun g => (gs_pkg g, gs_tname g)) (filter (fun g => negb (struct_codec_full (to_gostruct g))) structs)).'], 'layout')
    if out.count('= []') >= 2:
        return None
    return 'message structs that no longer follow the MAVLink layout rules / whose codec is not well-formed: ' + out[:1500]

P['C03'] = dict(
    rule='every distinct message struct type of the 19 shipped dialects plus 18 user-defined structs with unusual shapes (mixed sizes, arrays, strings, plain char, extensions, enum arrays, mavname, 255-byte payload, invalid ones): CRCExtra(); probe encodings (each field and sampled array elements in turn set to a distinctive pattern, all others zero; all-zero; all-ones; random/boundary values) in v1 and v2; decoding of the encodings and of random full-size payloads. Non-trivial: the model produced bytes / a value / a CRC.; every encoded payload is also kept as returned and rendered 300 cases later',
    assumptions=['reflect and sort.Slice are modelled: the regenerated struct descriptions stand for reflect, the order theorem covers any sorted permutation'],
    mismatch_meaning='CRC_EXTRA or encoded/decoded layout differs from the model whose table instance is proved equal to the MAVLink rules: concrete message and value',
    find_bad=find_bad_struct,
)

def find_bad_c17(root):
    w = find_bad_struct(root)
    out = eval_with_defs(root, ['TableDialects'],
                         ['Eval vm_compute in (map gd_name (filter (fun gd => negb (dialect_ok gd)) shipped)).',
                          'Eval vm_compute in (filter (fun e => negb (const_agrees e)) enum_consts).',
                          'Eval vm_compute in (golden_mismatches "common").',
                          'Eval vm_compute in snapshot_mismatches.',
                          'Eval vm_compute in (filter (fun e1 => negb (forallb (same_msg_same_type e1) (dedupe all_entries []))) (dedupe all_entries [])).'], 'dialects')
    if out.count('= []') >= 5 and not w:
        return None
    return ((w or '') + ' | dialects failing init / disagreeing enum constants / golden CRC mismatches / released messages whose CRC_EXTRA changed (dialect, id, type) / same id+name with different Go types: ' + out)[:2500]

P['C17'] = dict(
    rule='all 19 shipped dialects: Initialize, CRCExtra of every message, GetMessage for every defined id, its neighbours +-1, 300 (quick) / 20000 (thorough) random ids of the 2^24 space and the ids 2^24-1, 2^24, 2^32-1 (checking the returned codec belongs to the message with that id); 120 / 2000 user dialects built from random subsets with injected duplicate ids and malformed structs. Non-trivial: lookup found a codec or initialisation succeeded.; obligation on the regenerated tables: 395 released messages (id, Go type name) keep the CRC_EXTRA of Spec/CrcSnapshot.v in every shipped dialect other than development; eight goroutines looking up ids (a few of their own each, now and then any, absent ones included) 20000 / 400000 times on one shared dialect.ReadWriter: every lookup returns the codec of the message with that id; lookup sequences present, absent, absent, present for every message of common; a node, then a duplicate id / malformed struct added to the same dialect value, second node refused',
    assumptions=['Go map modelled as an association list (order irrelevant: ids unique after Initialize)'],
    mismatch_meaning='dialect initialisation or id lookup differs from the model proved correct for every id: concrete dialect and id',
    find_bad=find_bad_c17,
)

P['C04'] = dict(
    rule='every distinct message type of the shipped dialects and 11 user-defined shapes: random/boundary values (NaN payloads incl. signalling NaNs, -0, min/max, strings with NUL and over-length) encoded and decoded back in v1 and v2; decoding of payloads of every length 0..256, 300, 600 (all lengths for 12 sampled types in quick, boundary lengths around the base and extended sizes for all; thorough: all lengths for all types) filled with 00 / FF / random; Read on a payload that is a prefix of a larger sentinel-filled backing array (cap > len), backing array compared afterwards. Non-trivial: the model produced bytes / a decoded value.; the payload returned by a Write is compared again after the next Write and Read on the same codec; encoded payloads are rendered 300 cases later; a message decoded from a buffer the caller then overwrites is rendered later',
    assumptions=['reflect is modelled by the struct description; Go slices by (backing array, len)'],
    mismatch_meaning='encode/decode result (or the caller\'s backing array after Read) differs from the model proved to round-trip, to be truncation-invariant, panic-free and to leave the caller\'s buffer alone: concrete message, version and payload',
    find_bad=find_bad_struct,
)

P['C08'] = dict(
    rule='common-dialect messages (those with strings first; 40 in quick, all in thorough) in v1 and v2, signed and unsigned, in six payload encodings (canonical, not zero-truncated, random bytes after NUL bytes, unknown trailing bytes beyond the extended size, fully random, sparse random) forwarded through 3 dialect hops (each hop: frame.Reader with the dialect -> frame.Writer.Write unchanged; the implementation\'s output of hop k is the input of hop k+1) and 2 raw hops (bytes must be identical); unknown ids through a dialect router; a received frame edited (message replaced by a random value of its type) then Node.FixFrame with and without OutKey, then validated at a next hop (keyed when the frame carries the signed flag). Non-trivial: a frame was delivered.; the largest frames (253..255-byte payloads, signed) laid out by hand; streams of 2..9 raw frames read ahead completely from one transport and only then written out again, byte for byte; a router built on a Node forwards eight received STATUSTEXT frames with WriteFrameExcept and then changes the message struct it was handed while the destination link is blocked in its first write: the next hop reads eight valid frames carrying the messages as received; in the Node router every frame arrives twice, byte for byte, and the application edits the decoded message it was handed',
    assumptions=['signature validation after FixFrame is checked for frames that carry the signed flag (FixFrame does not set the flag on an unsigned frame; recorded in DESIGN.md)'],
    mismatch_meaning='a hop delivered / re-emitted something different from the model proved to forward transparently: concrete wire bytes',
    find_bad=find_bad_struct,
)

P['C20'] = dict(
    rule='entry sequences (1..4 entries; v1/v2, signed, raw and dialect-decoded messages, times before/after 1970, at int64-scale values and with sub-microsecond offsets) with unencodable entries (v1 id > 255, message not in the dialect) at random positions; written through tlog.Writer with every budget of successful underlying writes (an error at the k-th Write for every k): per-entry outcome and file bytes compared; the file read back whole and cut at EVERY byte offset, n+3 reads each: sequence of entries / errors compared. Non-trivial: an entry was written or read.; the largest entry (signed v2 frame, 255-byte payload) in every eighth sequence; logs of 350..650 entries (several times the 4096-byte read buffer); the underlying writer follows an outcome oracle: besides the k-th-and-later-fail budgets, exactly the k-th underlying Write fails for every k (transient failure); entries read back are kept as returned and rendered only after the last read (an entry must not change because more was read); a time read back must be the instant its microseconds denote (UnixMicro alone wraps around); logs of seven entries of one message type with all-ones / zero / random values (payload lengths varying) read through one reader with the dialect',
    assumptions=['a failing underlying Write writes nothing', 'bufio.Reader modelled by the flat stream semantics (Model/Stream.v, proved equivalent to the chunked model)'],
    mismatch_meaning='file contents, reported errors or entries read back differ from the model proved to round-trip, to be truncation-safe and to leave no partial entry: concrete entry sequence / cut offset / failing write',
)

def find_bad_c19(root):
    out = eval_with_defs(root, ['TableEnums'],
                         ['Eval vm_compute in (filter (fun f => negb (known_failure f)) (bitmask_failures enums)).',
                          'Eval vm_compute in (map (fun g => (ge_pkg g, ge_name g)) (filter (fun g => negb (plain_ok g)) enums)).'], 'enums')
    if out.count('= []') >= 2:
        return None
    return 'bitmask enums whose zero / constants / union do not round-trip (with the failing values), then ordinary enums with inconsistent maps: ' + out[:2500]

P['C19'] = dict(
    rule='every enum type of the shipped dialects with text methods (registry regenerated from the sources on every run): zero, every defined constant, for bitmask enums random combinations of the single-bit flags and the union of all flags, for ordinary enums random/boundary unnamed values over the whole uint64 range incl. 2^63-1, 2^63, 2^63+1, 2^64-1; MarshalText then UnmarshalText compared with the model (text and value); parsing of garbage, numerals, names and name combinations. Non-trivial: the round trip produced a value.; every parse also goes into a variable that already holds other bits; eight enums of a dialect generated on the spot by the real generator (plain, bitmask, a flag above the entry count, a bitmask and an ordinary enum of an included definition extended by the including one) are compiled with a probe and round-tripped the same way; the generated dialect also has zero-padded decimal values (010, 0100, 09; flags 016, 032); the slice returned by MarshalText for one value is kept and must read the same after the next value was rendered; the slice returned by MarshalText is parsed 300 cases later',
    assumptions=['Go maps labels_X / values_X are read from the source by go/ast and modelled as association lists'],
    mismatch_meaning='text rendering or parsing of an enum value differs from the model proved to round-trip: concrete enum type and value',
    find_bad=find_bad_c19,
)

def match_f12(k, case, impl, model):
    # ardupilotmega.RALLY_FLAGS, a value containing bit 8 or bit 16 (the ALT_FRAME field): impl and
    # model AGREE on these (the model reproduces the defect), so this matcher is only used for
    # the KNOWN-FINDING line; nothing is suppressed by it.
    return False

def cmp_scen(case, impl, model):
    """scenario observations: ops ending in 'p' carry an acceptance predicate proved of every model
    execution (here: the observation is a token-wise prefix of the predicted full sequence); all
    other ops are compared by equality"""
    op = case.split('\t', 1)[0]
    if op == 'chanevp':
        if impl == '-':
            return True
        it, mt = impl.split(' '), model.split(' ')
        return len(it) <= len(mt) and mt[:len(it)] == it
    if op == 'idle':
        # closing time in ms: the OS timer may fire late, never early (beyond clock granularity)
        try:
            im, mo = int(impl), int(model)
        except ValueError:
            return False
        return mo - 60 <= im <= mo + 600
    if op == 'provider':
        # a back-off is observed through timing: being slower than required is not a violation, so
        # the observation may show extra 'B' tokens; every 'B' of the model must be there
        it, mt = impl.split(' '), model.split(' ')
        i = 0
        for tok in mt:
            while i < len(it) and it[i] == 'B' and tok != 'B':
                i += 1
            if i >= len(it) or it[i] != tok:
                return False
            i += 1
        while i < len(it) and it[i] == 'B':
            i += 1
        return i == len(it)
    return impl == model

P['C10'] = dict(
    bin='scen', compare=cmp_scen,
    rule='real gomavlib.Node over 1..4 custom endpoints with scripted in-memory transports; per channel a history of valid frames (v1/v2, signed on keyed links), complete frames with a wrong checksum / signature / missing signature and junk without frame markers, fed in random chunks from concurrent feeders; a transport error ends a channel (close event) and the endpoint opens the next one with its own history; consumer fast / slow / bursty; 0..2 concurrent writers; GOMAXPROCS 1/2/16. Observed per channel: the ordered event sequence, compared for equality with the model prediction (open, one event per read result of the frame-reader model on the same bytes, close). Close-race scenarios (consumer absent while frames arrive, Close(), then ranging over Events()): the observation must be a prefix of the prediction. Non-trivial: at least one frame event predicted.; four channels decoding 300 truncated v2 payloads of the same message type at once (every frame tagged with channel and index: a channel must see exactly its own frames in order); a TCP server channel with a 300 ms idle time-out whose application pauses twice for longer than that while the peer keeps sending (nothing lost, channel stays open); one UDP datagram of 13 / 25 / 66 (thorough: 1..300) back-to-back frames sent to a UDP server endpoint and to a UDP client endpoint: every frame delivered in order, no parse error (finding F13); refused frames on links without a key may be signed; two or three consecutive frames with an id outside the dialect; a custom endpoint going through forty lives of ArduPilot peers that leave right after their heartbeat, stream requests enabled, the application writing: no event of a channel after its close event',
    assumptions=['scheduler perturbation (GOMAXPROCS, sleeps, Gosched) is search, not proof; the all-schedules claim is the LTS theorem', 'waiting is on predicted observables with a 20 s timeout'],
    mismatch_meaning='the event sequence the application observed from a channel differs from the sequence every execution of the node model produces (open first, one event per input in order, close last): concrete input history',
)

P['C11'] = dict(
    bin='scen', compare=cmp_scen,
    rule='real Node over 1..5 custom endpoints; 1..3 submitter goroutines each issuing 3..17 calls drawn from the six Write* calls (messages and forwarded frames carrying a serial number; targets all / one / all-but-one, sometimes a channel of another node), with concurrent incoming traffic, GOMAXPROCS 1/2/16; total per channel below the queue size so nothing may be dropped; a FIFO marker per channel closes the observation. Per channel: every transport write must be exactly one frame; forwarded frames keep their header, originated messages carry the configured ids and per-link sequence numbers 0,1,2,..; the serial sequence on the wire is checked by the extracted acceptance predicate fan_ok (restricted to any submitter it equals that submitter\'s targeted submissions in order, and holds nothing else). Non-trivial: the predicate was evaluated on a non-empty wire.; router scenarios (every received frame forwarded to the other channels while several more arrive in the same transport read, with and without a dialect: forwarded bytes identical, in order, nothing back to the sender); a stalled sibling channel with an overflowing queue must not keep anything from the healthy one nor block the submitter; ArduPilot heartbeats from 20..40 distinct components (one burst of seven stream requests each) while the application writes 40..80 messages to the same channel: every write on the wire is one whole frame, sequence numbers gapless, count exact; a router variant that also answers with stream requests; signed-v2, v2 and v1 nodes writing messages with payloads of 250..255 bytes next to small ones, as messages and as frames to forward: every transport write is exactly one frame that reads back (with the key) as the item submitted, in order; forty raw messages of the dialect ending in zero bytes written to all three channels of a v2 node: valid frames in order on every channel and the application\'s message unchanged; one message object reused for twelve WriteMessageAll calls, changed between submissions, while one of two channels is blocked in its first write: both wires carry 1..12; a custom transport that stores one byte at a time and outlives three channels (read faults under a constant backlog): the wire parses as whole frames',
    assumptions=['acceptance predicate fan_ok is the decidable form of C11_exactly_once + C11_wire_in_order when no queue overflows', 'scheduler perturbation is search'],
    mismatch_meaning='a wire shows a lost, duplicated, reordered, foreign or torn item, or wrong header fields: concrete submission history',
)
P['C13'] = dict(
    bin='scen', compare=cmp_scen,
    rule='(a) 2..4 channels, one transport blocked in Write; 100..250 WriteMessageAll: every healthy channel must show all items in order (marker-terminated) and events must keep flowing; after release the stalled channel must show an ordered subsequence of at most 1+64 items (+marker). (b) transport Write failing at 1..3 random call positions: the wire must hold every other item, in order. (c) unencodable items (raw id outside the dialect; id > 255 on a V1 link) at random positions: every valid item must still reach the wire, sequence numbers gapless. Non-trivial: predicate evaluated on a non-empty wire.; (d) a Write stalls in a serial device at the k-th call and the read side then fails: close event with cause, the other channel goes on, Close returns; a TCP peer that stops reading for 3 s while the node floods 255-byte messages with a 200 ms write time-out (writes are cut by the deadline), then drains and keeps talking: a close event, or all ten later writes arrive; stream requests enabled and an ArduPilot heartbeat heard on a stalled channel with a full backlog: twenty later writes reach the other channel',
    assumptions=['scheduler perturbation is search; the all-schedules claims are the LTS theorems'],
    mismatch_meaning='a stalled or failing channel delayed others, exceeded its bounded backlog, reordered, or stayed open while discarding output: concrete write history',
)

P['C12'] = dict(
    bin='scen', compare=cmp_scen,
    rule='real Node; Close() issued at scripted points: before the first event is consumed, reader blocked on an undelivered event, idle, writer blocked in the transport (a transport whose Write only returns on Close), channel mid-close (read error just before), traffic in flight, 100 pending writes — each with the consumer running and absent, 1..3 custom endpoints, 0..2 goroutines calling WriteMessageAll before, during and after Close, GOMAXPROCS 1/2/16; then network endpoints over loopback (TCP/UDP server with a peer, TCP client connected and in reconnect back-off, UDP client, UDP broadcast) and a node whose initialisation fails on its third endpoint. Observed: Close returns within 8 s, ranging over Events() ends, each custom transport closed exactly once, no goroutine running gomavlib/pion code is left, Write* callers returned without panic, TCP/UDP ports can be bound again. Every case expects the verdict ok. Non-trivial: every case.; read error while a Write is stuck in a serial device; a device handed out while Close is in progress must be closed; Close with a stuck channel whose queue has overflowed; Close() called directly after NewNode() (GOMAXPROCS 1/2/16, heartbeats on and off): no device may be opened after Close returned; odd but possible settings of the broadcast endpoint and a late-failing endpoint list: whatever the outcome of the initialisation, the local port is free after the failure or after Close; Close after 1..5 ms of a 100..500 microsecond heartbeat period (30 times); transports that release a blocked Read 300 ms late (one look for live goroutines 40 ms after Close returned); outcome-agnostic node settings with extreme numbers (stream request rate 65535 / 65536 / -1 / 2^40, ids 255, heartbeat types 255 / -1, v1 with a key, system id 0, time-outs of 1 ns) over TCP server + UDP server + custom endpoint, each on a port of its own: after a refusal or after Close the ports are free, no goroutine is left and the custom transport was closed exactly once when the node ran; a Node value taken through Initialize / Close three times (new custom transport each life, the same TCP server port): every Close returns, the event channel is closed, the port is free, no goroutine is left; Close after six heartbeats of two ArduPilot senders with stream requests enabled; client endpoints whose address can never be used beside a custom endpoint: Close returns',
    assumptions=['fairness of the Go scheduler and OS release of sockets are measured, not proved', 'goroutine-leak probe: stacks containing gomavlib or pion frames, polled up to 3 s'],
    mismatch_meaning='Close did not return, or left a goroutine, socket, open event channel or unclosed custom transport behind, or a Write* call blocked / panicked: the scenario description is the replay',
)

P['C14'] = dict(
    bin='scen', compare=cmp_scen,
    rule='(1) pkg/timednetconn over a recording net.Conn: random Read/Write sequences, the recorded call trace (deadline armed before every call, deadline value within 20 percent of the configured timeout) compared with the model; (2) serial endpoint over fake devices (verif hook), reconnect period 60 ms: scripts of 2..6 outcomes (open failure / open ok then read error with a scripted cause): observed trace of open attempts, back-offs (inferred from gaps >= 0.7 period), open and close events with their cause compared with the provider model, two channels open at once flagged; (3) custom endpoint: close event carries the injected cause; (4) TCP client against a server that accepts, sends a frame and hangs up k times after a period with nothing listening: open/close alternation compared with the model; (5) TCP and UDP servers, idle timeout 200 ms: two peers get their own channels, the silent one is closed by a timeout inside [0.9 idle, 2 idle + 1.5 s], the talking one is not, a third peer is still accepted. Non-trivial: a trace with at least one channel.; in the serial scripts the devices with an odd cause have a Write stuck in the transport at the moment the read fails; a TCP client against a server whose accept queue is full (listen backlog 0): attempts end in dial time-outs, then the server accepts and the client must connect; (6) idle expiry against the timed model: a peer of a TCP / UDP server sends bursts with gaps of 60..340 ms (idle time-out 400 ms) and stops: the observed closing time must lie in [model - 60 ms, model + 600 ms] where the model gets the measured arrival times; the timednetconn call trace with scripted results of the wrapped connection (failed, timed-out, partial): handed back unchanged, next call made afresh; a healthy TCP client channel fed valid frames, junk, a wrong checksum and v1 frames with a right checksum and a payload of the wrong length: parse errors only, no close event, one connection; a UDP server with four peers whose datagrams start with a frame, with junk before a frame, never on a frame boundary (a sender joined mid-stream), with a junk byte before every frame: each gets its channel and at least three of its frames; the idle scenario runs on TCP / UDP server and client endpoints, the first run of each with arrivals at 0, 150, 450, 500 ms against a 400 ms time-out; a custom endpoint taken through two or three read faults: per channel open, the frames fed, close with the cause fed for that life; ReadTimeout 100 ms with IdleTimeout unset on a TCP server hearing one frame a second for three seconds: still open',
    assumptions=['deadline enforcement is the operating system\'s; expiry is checked inside a tolerant bracket (a deadline firing inside a frame surfaces as a parse error first, the next read closes the channel)', 'back-offs are observed through timing with tolerance'],
    mismatch_meaning='the observed lifecycle of channels (attempts, back-offs, open/close events and causes, idle expiry) differs from the provider model proved to reconnect after every failure with at most one channel open',
)

P['C16'] = dict(
    bin='scen', compare=cmp_scen,
    rule='(1) heartbeats: a real Node over 1..3 scripted pipes, period 80..160 ms, random system type / autopilot type, six dialects (shipped minimal and common, custom with the standard heartbeat, without id 0, with a non-standard id 0, with a non-standard id 66,), no dialect, disabled: after 5.5 periods every pipe must hold only heartbeats with exactly the model\'s field values, or nothing when the model says off; count within [4,6], first heartbeat not before 0.6 period, gaps within [0.5,1.5] period (retried up to 3 times before TIMING is reported); (2) stream requests: histories of 5..44 frames (heartbeats from systems 1/2/10/255 x components 1/2/255 — 10 is the system id of the node itself, 10.1 its identity — with autopilot 3/0/8/12, other messages, v1 and v2) over 1..3 channels, enable on/off, frequency 0/1/4/10/300/65535: per channel the decoded requests written (fields, order, sender ids) and the event sequence (stream-requested before the frame event) compared with the model; (3) in real time, run beside the rest: quick 34 s across one cleaner tick (entries younger than 30 s survive the tick, older ones are requested again), thorough 63 s across two ticks (a cleaned entry is requested again). Non-trivial: heartbeats observed, or at least one request burst.; three nodes with different heartbeat settings alive at the same time on one dialect object, twice; a TCP server with two peers: A answered once, B leaves, A not answered again within 30 s',
    assumptions=['tick spacing is the Go runtime ticker\'s; checked inside a tolerant bracket with retries', 'the real-time history leaves margins of 1.5 s around the 30 s threshold'],
    mismatch_meaning='the heartbeats or stream requests observed on the real node (content, count of seven, addressing, events, absence when disabled or non-standard) differ from the model the C16 theorems are proved about',
)

def run_race(root, env, sh, pid, tier, seed, wd, log):
    """C15 search for a concrete racy schedule: the scenario suite of C10-C14 and C16 built with the
    Go race detector and run against /repo; one case line per scenario run, impl = number of race
    reports whose stacks include gomavlib code, model = 0."""
    import glob
    h = _os.path.join(root, 'harness')
    renv = dict(env, CGO_ENABLED='1')
    rc, out = sh('go build -race -tags verif -o bin/scen-race ./cmd/scen', cwd=h, timeout=2400, env=renv)
    log.append(('go build -race', rc, out[-3000:]))
    if rc != 0:
        return False, out
    runs = [('C10', 'quick'), ('C11', 'quick'), ('C12', 'quick'), ('C13', 'quick'), ('C14', 'quick'), ('C16', 'quick')]
    seeds = [seed]
    if tier == 'thorough':
        runs = [('C10', 'thorough'), ('C11', 'thorough'), ('C12', 'quick'), ('C13', 'quick'), ('C14', 'quick'), ('C16', 'quick')]
        seeds = [seed, seed + 1, seed + 2]
    cases, impl, model, hist = [], [], [], {}
    reports = []
    harness_only = 0
    for sd in seeds:
        for sid, t in runs:
            sub = _os.path.join(wd, 'race-%s-%d' % (sid, sd))
            _os.makedirs(sub, exist_ok=True)
            for f in glob.glob(_os.path.join(sub, 'report.*')):
                _os.remove(f)
            e2 = dict(renv, VERIF_SEED=str(sd), GORACE='log_path=%s halt_on_error=0 exitcode=0 history_size=5' % _os.path.join(sub, 'report'))
            rc, out = sh([_os.path.join(h, 'bin/scen-race'), sid, sub, t], timeout=3000, env=e2)
            log.append(('scen-race ' + sid, rc, out[-1500:]))
            if rc != 0:
                if '/repo/' in out and ('panic:' in out or 'fatal error:' in out):
                    # the library itself crashed on this schedule: that is the failing schedule
                    cases.append('race\t%s\t%s\t%d\tcrashed' % (sid, t, sd))
                    impl.append('CRASH ' + ' '.join(out[out.find('panic:') if 'panic:' in out else out.find('fatal error:'):].split())[:3000])
                    model.append('races=0')
                    continue
                return False, 'race-enabled scenario %s failed to run: %s' % (sid, out[-1500:])
            n = 0
            try:
                n = sum(1 for _ in open(_os.path.join(sub, 'cases.txt')))
            except OSError:
                pass
            mine = []
            for f in sorted(glob.glob(_os.path.join(sub, 'report.*'))):
                txt = open(f, errors='replace').read()
                for blk in txt.split('==================')[1:]:
                    if 'DATA RACE' not in blk:
                        continue
                    if '/repo/' in blk:
                        mine.append(blk.strip()[:6000])
                    else:
                        harness_only += 1
            reports += mine
            cases.append('race\t%s\t%s\t%d\t%d scenario cases' % (sid, t, sd, n))
            impl.append('races=%d%s' % (len(mine), (' ' + ' '.join(mine[0].split())[:3000]) if mine else ''))
            model.append('races=0')
            hist['scenario cases under the race detector (%s)' % sid] = hist.get('scenario cases under the race detector (%s)' % sid, 0) + n
    open(_os.path.join(wd, 'cases.txt'), 'w').write(''.join(c + '\n' for c in cases))
    open(_os.path.join(wd, 'impl.txt'), 'w').write(''.join(c + '\n' for c in impl))
    open(_os.path.join(wd, 'model.txt'), 'w').write(''.join(c + '\n' for c in model))
    open(_os.path.join(wd, 'hist.txt'), 'w').write(''.join('%s\t%d\n' % kv for kv in hist.items()))
    import json as _json
    try:
        rows = sum(1 for l in open(_os.path.join(root, 'coq', 'gen', 'Access.v')) if l.lstrip().startswith('mkRow'))
    except OSError:
        rows = 0
    distinct = set()
    for sd in seeds:
        for sid, t in runs:
            try:
                for l in open(_os.path.join(wd, 'race-%s-%d' % (sid, sd), 'cases.txt')):
                    distinct.add(hash(l))
            except OSError:
                pass
    _json.dump({'access_table_rows': rows, 'race_reports_in_harness_code_only': harness_only,
                'scenario_runs': len(cases), 'scenario_cases_under_race_detector': sum(hist.values()),
                'evaluations_override': sum(hist.values()), 'distinct_nontrivial_override': len(distinct)},
               open(_os.path.join(wd, 'extra.json'), 'w'))
    return True, ''


def find_bad_access(root):
    out = eval_with_defs(root, ['TableAccess'], ['Eval vm_compute in (failing_rows access_rows).'], 'access')
    m = _re.search(r'= (\[.*\]) : list', out)
    if m and m.group(1) != '[]':
        return {'policy_rows_failing': m.group(1)[:4000]}
    return None


P['C15'] = dict(
    bin='scen', runner=run_race, find_bad=find_bad_access, find_bad_is_input=False,
    rule='(1) translator: /verif/access loads package gomavlib from /repo with go/packages (go/types) and regenerates coq/gen/Access.v: every selection of a field of a package struct (enclosing function, read / write / method call on the pointee, mutex lexically held, goroutine roots reaching the function in the static call graph with interface calls resolved to every implementation), the call edges, the go-statement roots, the first spawn line of Node.Initialize and the select alternatives of hand-over sends; the theorem C15_access_table_follows_policy re-checks the ownership policy on that table by vm_compute. (2) search for a concrete racy schedule: the scenario suites of C10, C11, C12, C13, C14 and C16 (real Node over scripted transports, fake serial devices, loopback TCP/UDP; concurrent writers, slow and absent consumers, closes, heartbeats and stream requests; GOMAXPROCS 1/2/16) rebuilt with -race; a detector report whose stack includes /repo code is a violation with the report as replay. evaluations = scenario cases executed under the detector; non-trivial = distinct scenario case lines (every scenario drives a real Node).',
    assumptions=['the static call graph over-approximates which goroutine runs which function (function values stored and called later are attributed to the function that creates them)',
                 'one goroutine instance per object for the roots go:Node.run, go:channelProvider.run, go:lit:Channel.runReader, go:lit:Channel.runWriter (each works on its own receiver)',
                 'accesses inside other packages (pkg/frame, pkg/streamwriter, transports), through reflection, and by the application on frames it received are outside the table; the race detector covers them only on the schedules that were run'],
    mismatch_meaning='the Go race detector reported conflicting unsynchronised accesses inside gomavlib on a concrete schedule of the scenario suite',
    trusted_extra=['/verif/access (go/packages + go/types from golang.org/x/tools v0.29.0): call graph, root sets, read/write classification', 'Go race detector (ThreadSanitizer runtime)'],
)

P['C18'] = dict(
    rule='grammar-based random dialect definitions (12 packages in quick, 60 in thorough): a root XML with 0..2 includes, possibly a common file included from several (diamond), versions present or absent per file; enums with decimal / 0x (both cases) / 0b / 2**k values, bitmask or not; messages whose names use digits, double and trailing underscores; 1..9 fields per message over all ten scalar types, arrays, char[n], plain char, enum-typed integer fields and arrays of them, uint8_t_mavlink_version, extensions from a random position; field names in snake case and in shapes that do not convert back (capitals, digits after underscores, double and trailing underscores). The real conversion.Convert writes the Go package (link mode off) into the harness module, twice (files compared byte for byte); a generated probe imports every package, and the harness compares with the model: per message the struct as reflection reports it (names, array lengths, element types, kinds, all four tags), its id and the CRC_EXTRA the run-time computes; every enum constant; the dialect (Initialize result, version, message order across includes); plus definitions that must be refused (unknown types, bad message names, 15 malformed enum values, a missing include). Non-trivial: a generated message or a constant.; every other generated package extends an enum of a definition it includes (so that generating twice in one process meets the merge); after three definitions refused at an extension field with a non-snake-case name every good package is generated again and gives the same files',
    assumptions=['the Go compiler and reflect are trusted to mean what the language says of the emitted text; only what the probe reports is compared', 'valid definitions: message names [A-Z][A-Z0-9_]*, field names starting with a letter, array lengths without leading zeros, unique Go names inside a message, unique enum values inside an enum'],
    mismatch_meaning='the package the generator wrote, once compiled, differs from the model of the generator the C18 theorems are proved about (struct shape, tags, CRC_EXTRA, constants, version, message order), or the generator accepted what it cannot express, or its output differs between two runs',
)

KNOWN_MATCH = {'F12': match_f12}
