HOOKS = {
    'guard': 'verif',
    'enable': 'go build -tags verif (harness module with replace => /repo)',
    'baseline_off_cmd': 'cd /repo && GOFLAGS=-mod=mod GOPROXY=off go test -vet=off -count=1 -timeout 25m ./...',
    'source_commits': ['05f56bd'],
    'add_only': True,
}
NOTES = 'Every check: regenerates coq/gen from /repo, full make of the Coq development, re-checks Props/<id>.v (Print Assumptions), rebuilds harness and extracted model, runs the differential correspondence, writes evidence/<id>.json. See DESIGN.md.'

PENDING = 'check under construction in this session: the Coq model and harness for this property are not committed yet'
ALL = ['C%02d' % i for i in range(1, 21)]

CHECKS = {}
CHECKS['C02'] = dict(
    text='Kernel-checked proof that the code-shaped checksum step equals the bit-serial CRC-16/MCRF4XX register on all 2^24 (state, byte) pairs (reflection over 2^16 + 2^8 values and a GF(2) decomposition lemma), that hashing is split-independent, that the frame checksum is that CRC over length..payload+CRC_EXTRA, and that the reader gate is sound and complete on the model of frame.Reader.Read; the model is tied to the Go code on every run by differential execution (all 2^16 register states through the public API, all single-bit flips of sampled frames).',
    note='Trusted: Coq kernel, extraction (ExtrOcamlBasic), OCaml driver, Go harness; bufio modelled (Model/Stream.v); the theorem is about the Gallina transliteration of x25.go / reader.go, the tie is differential.',
    technique='Coq proof (reflection + bit-vector lemmas) + extracted-model differential against pkg/x25, pkg/frame',
)

CHECKS['C01'] = dict(
    text='Kernel-checked proof that, for every well-formed v1/v2 frame (all header bytes, ids, payloads of 0..255 bytes, link id, 48-bit timestamp, signature), the bytes frame.Writer hands to the transport equal an arithmetic (div/mod) rendering of the MAVLink layout, that reading those bytes back — for every splitting into transport reads — returns the frame field for field and leaves what followed, and that a v1 frame with id > 255 is refused; tie to the code: differential run of frame.Writer/Reader vs the extracted model on boundary-value frames.',
    note='Trusted: Coq kernel, extraction, OCaml driver, Go harness; bufio modelled; payload > 255 bytes and v2 ids >= 2^24 are outside the stated domain.',
    technique='Coq proof (layout = arithmetic spec, read-after-write by simulation with a flat stream spec) + extracted-model differential')
CHECKS['C06'] = dict(
    text='Kernel-checked characterisation of the keyed branch of the reader model (delivered iff v2, signed, signature = first 48 bits of SHA-256 over the specified bytes under the configured key, inside the window), corollaries for v1/unsigned/any signature mismatch, and that keyed writers produce frames that verify; SHA-256 is a Gallina implementation validated against crypto/sha256 by the differential run (every single-bit alteration of sampled signed frames, wrong keys, writer outputs).',
    note='Collision resistance of the 48-bit SHA-256 prefix is assumed, not proved. Trusted: Coq kernel, extraction, driver, harness.',
    technique='Coq proof (iff-characterisation of check_key, writer/reader composition) + extracted-model differential incl. Gallina SHA-256')
CHECKS['C07'] = dict(
    text='Kernel-checked proof that the reader model refuses exactly the correctly signed frames more than 10^6 ticks older than the newest accepted one, for all timestamps and all histories (equivalence with a register-free specification by induction over the history), and that outgoing ticks are ns/10000 and monotone in the clock; tied to frame.Reader by exhaustive boundary-alphabet sequences and random walks of signed frames.',
    note='Trusted: Coq kernel, extraction, driver, harness; Go monotonic clock.',
    technique='Coq proof (induction over timestamp histories, lia) + extracted-model differential')
CHECKS['C09'] = dict(
    text='Kernel-checked proofs on the writer model: initialisation validation, every originated frame carries configured ids/version/zero compat flags/correct checksum (and signature block with a key), and for ANY history of accepted and rejected writes the emitted sequence numbers are s, s+1, ... mod 256 (induction over the history); tied to streamwriter.Writer and frame.Writer.WriteMessage by differential histories of 300-700 writes with rejected writes interleaved.',
    note='Trusted: Coq kernel, extraction, driver, harness. Node-level origination (heartbeats, stream requests) is exercised by the scenario checks of C11/C16.',
    technique='Coq proof (induction over write histories) + extracted-model differential')

CHECKS['C05'] = dict(
    text='Kernel-checked proofs on the reader model, for every stream and every segmentation: one simulation theorem shows the reader over the chunked bufio model equals the reader over a flat item sequence (so results cannot depend on the splitting); on the flat semantics: no panic, every non-transport-error call consumes at least one item, a stream of n items is exhausted in at most n+1 calls ending on EOF, the spec bytes of any well-formed frame are parsed to exactly that frame leaving what followed, and valid frames separated by non-marker junk are all delivered in order. Tied to frame.Reader over the real bufio.Reader by a bounded-exhaustive differential (small alphabet x all segmentations x fault at every offset) comparing results and per-call consumption.',
    note='bufio.Reader is modelled (fill/Peek/Discard/Read/ReadByte as used by pkg/frame); transports that return data together with an error, or empty reads, are outside the model. Trusted: Coq kernel, extraction, driver, harness.',
    technique='Coq proof (simulation chunked->flat stream, induction on fuel/stream length) + bounded-exhaustive extracted-model differential')

CHECKS['C03'] = dict(
    text='Kernel-checked: (i) on the table of all 408 shipped message structs regenerated from /repo on every run, the library\'s field table, payload sizes and CRC_EXTRA equal those a separately written MAVLink-rule specification (filter-based stable order, bit-serial CRC, unbounded arithmetic) derives from the definition each struct denotes, and each fits 255 bytes (vm_compute over the complete finite table); (ii) for ANY struct with extensions declared after base fields, the executable sort equals the MAVLink order, and ANY permutation sorted for the library\'s comparator (sort.Slice as an oracle) is that order (uniqueness of sorted permutations). The Initialize/Read/Write models are tied to pkg/message by probe encodings of every shipped type and 18 user-defined shapes.',
    note='The generic (non-table) equality of sizes and CRC_EXTRA with the spec for arbitrary user structs is exercised by the differential run on user-defined shapes, not yet proved generically. Trusted: Coq kernel, vm_compute, extraction, driver, harness, the reflection-based table translator.',
    technique='Coq proof (vm_compute over regenerated complete table + sorted-permutation uniqueness) + extracted-model differential')
CHECKS['C17'] = dict(
    text='Kernel-checked on tables regenerated from /repo on every run: all 19 shipped dialects initialise in the model of dialect.ReadWriter.Initialize; every message follows the layout rules and fits 255 bytes; messages with the same id and name are the same reflect.Type in every dialect; every enum constant has one value across all packages; 57 CRC_EXTRA values equal those published with the reference C library. Generic theorems: initialisation succeeds only with unique ids and well-formed structs (so duplicates / malformed structs are rejected at Initialize) and lookup is correct for EVERY id. Tied to pkg/dialect by differential lookups and user dialects with injected faults.',
    note='Golden CRC_EXTRA list is a fixed table in coq/Proofs/TableDialects.v. Trusted: Coq kernel, vm_compute, table translator (reflection + go/ast), extraction, driver, harness.',
    technique='Coq proof (vm_compute over regenerated tables + generic association-map lemmas) + extracted-model differential')

CHECKS['C04'] = dict(
    text='Kernel-checked proofs on the Read/Write model for every well-formed codec (sizes not wrapped; the well-formedness of every shipped message type is itself a vm_compute obligation over the regenerated table): Read(Write(v)) = canonical(v) in both versions; v1 exact length; v2 payload = full encoding with trailing zeros stripped, never below one byte; the v2 decoder is a function of the payload cut/zero-padded to the extended size, hence invariant under appending/removing zero bytes and ignoring trailing bytes; no panic on any payload of any length; the caller\'s backing array untouched. Tied to pkg/message by a differential over all types x boundary values x all payload lengths x sentinel-filled caller buffers.',
    note='Well-formedness of codecs of arbitrary user structs is not proved generically (checked for the shipped table and exercised on user shapes). Trusted: Coq kernel, vm_compute, extraction, driver, harness, table translator.',
    technique='Coq proof (induction over field lists, little-endian byte lemmas, zero-padding algebra) + extracted-model differential')

CHECKS['C08'] = dict(
    text='Kernel-checked: every frame the reader model returns was parsed from exactly the layout bytes of a well-formed frame (inversion of the parser on byte streams); without a dialect, writing it back emits exactly the consumed bytes, so the next hop reads the very same frame (any number of hops, keyed or not); with a dialect of well-formed codecs (well-formedness of every shipped message is a vm_compute obligation on the regenerated table) the forwarded bytes are read at the next hop as exactly the frame delivered at this hop, whatever the received payload encoding (uses: decoded values are canonical, re-encoding cannot fail); FixFrame leaves the checksum and, for a v2 frame with an outgoing key, the signature the next hop computes. Tied to frame.Reader/Writer and Node.FixFrame by 3-hop differential runs over canonical and non-canonical encodings.',
    note='FixFrame does not set the signed flag on a frame that arrived unsigned: signature validation at a keyed next hop is checked for frames carrying the flag. Trusted: Coq kernel, vm_compute, extraction, driver, harness, table translator.',
    technique='Coq proof (parser inversion, codec idempotence, composition with C01/C04 theorems) + extracted-model differential over multi-hop forwarding')

CHECKS['C20'] = dict(
    text='Kernel-checked on the tlog writer/reader model: the file is the concatenation of 8-byte big-endian microsecond timestamps each followed by one frame; an unencodable entry leaves no bytes; a failing underlying write is reported; timestamps round-trip over the whole int64 range; any entry sequence reads back identically; and for EVERY truncation point of a valid log the reader returns exactly the complete entries before the cut and then only errors however often it is called (frame layouts are prefix-free; a failed parse leaves at most 12 bytes; fewer than 16 bytes never hold an entry). Tied to pkg/tlog by a differential over entry sequences x every cut offset x a write error at every underlying Write.',
    note='A failing underlying Write is modelled as writing nothing. Trusted: Coq kernel, extraction, driver, harness.',
    technique='Coq proof (prefix-freeness of frame layouts, parser inversion, induction over entry lists) + extracted-model differential over every cut offset')

CHECKS['C19'] = dict(
    text='Kernel-checked: Atoi(Itoa z) = z on the whole int64 range (decimal rendering/parsing by induction); for an ordinary enum whose generated maps are consistent and whose names are not numerals, EVERY 64-bit value survives MarshalText/UnmarshalText; those hypotheses hold of every ordinary enum of the shipped dialects, and for every shipped bitmask enum zero, every constant and the union of all constants round-trip except instances of the recorded finding (both vm_compute obligations over the enum tables regenerated from the sources by go/ast on every run, loop bound of the bitmask MarshalText included). Tied to the generated methods by a differential over all enum types (constants, flag combinations, unnamed values over the full uint64 range, rejection strings).',
    note='The round trip of EVERY combination of flags of a bitmask enum is exercised by random combinations, not yet proved generically. Known finding F12 (RALLY_FLAGS ALT_FRAME=24). Trusted: Coq kernel, vm_compute, go/ast table translator, extraction, driver, harness.',
    technique='Coq proof (decimal round trip, association-map lemmas, vm_compute over regenerated enum tables) + extracted-model differential over all enum types')

CHECKS['C10'] = dict(
    text='Kernel-checked, for every reachable state of a labelled transition system of the node (node loop, provider hand-over, per channel the reader, runner and writer goroutines, the two-phase pushEvent, the application consumer, Write* callers, Close; one label = one atomic goroutine step or one channel rendezvous; ALL schedules and ALL input histories by induction over the label sequence): what the application received from a channel is, in order, a prefix of what that channel attempted to deliver; that sequence is open, then per read result in arrival order its events, then close (a function of the channel\'s own inputs); nothing is lost unless the node was closed; open comes first; close comes once and last. Tied to the real node by scenario runs (scripted transports, random chunking, consumer fast/slow/bursty, concurrent writers, Close racing with delivery) whose per-channel observations are compared with the prediction obtained from the frame-reader model.',
    note='The LTS is hand-written from node.go / channel.go / channel_provider.go (goroutine program counters; Go channel and select semantics are modelled); the correspondence with the Go code is by scenario observation, not by differential execution of the LTS. Scheduler perturbation is search. Trusted: Coq kernel, extraction (reader model), driver, scenario harness.',
    technique='Coq proof (inductive invariant over an LTS of the node, all schedules) + scenario correspondence against the real Node')

CHECKS['C11'] = dict(
    text='Kernel-checked for every reachable state of the node LTS (all schedules): a submission is enqueued only on channels its target selects (all / one / all-but-one), at most once each; what a channel accepted is, in rendezvous order, exactly one copy of each submission enqueued on it; what reached its wire is an ordered sub-sequence of that, one transport write per item; nothing is dropped while the backlog is below 64 on an open channel; writes naming a closed channel change nothing. Tied to the real Node by scenarios with 1..3 concurrent submitters using the six Write* calls over 1..5 channels, whose wires are checked by the extracted acceptance predicate and for header fields / per-link sequence numbers.',
    note='The loop\'s fan-out over the channel set is one atomic label of the LTS (each ch.write is a single non-blocking channel operation on a distinct queue). LTS hand-written; correspondence by scenario observation. Trusted: Coq kernel, extraction, driver, scenario harness.',
    technique='Coq proof (inductive invariants over the node LTS: queue split, dispatch log) + scenario correspondence with extracted acceptance predicates')
CHECKS['C13'] = dict(
    text='Kernel-checked on the node LTS (all schedules): every channel queue holds at most 64 items; the wire of a channel is an ordered sub-sequence of what was submitted to it (overflow discards, never reorders); the loop can always take the next submission whatever state the channels are in and whether a channel goroutine can step depends on that channel only (a blocked transport delays nobody else); a writer goroutine ends only while its channel is being closed (after the repair of F6 a failed write makes it go on). Tied to the real Node by scenarios: a transport blocked in Write under 100..250 broadcast writes, transport write failures at random call positions, unencodable items at random positions.',
    note='LTS hand-written; correspondence by scenario observation; scheduler perturbation is search. Trusted: Coq kernel, extraction, driver, scenario harness.',
    technique='Coq proof (inductive invariants over the node LTS) + fault-injection scenarios against the real Node')

NOT_APPLICABLE = [{'property_id': p, 'reason': PENDING} for p in ALL if p not in CHECKS]
