HOOKS = {
    'guard': 'verif',
    'enable': 'go build -tags verif (harness module with replace => /repo)',
    'baseline_off_cmd': 'cd /repo && GOFLAGS=-mod=mod GOPROXY=off go test -vet=off -count=1 -timeout 25m ./...',
    'source_commits': [],
    'add_only': True,
}
NOTES = 'Every check: regenerates coq/gen from /repo, full make of the Coq development, re-checks Props/<id>.v (Print Assumptions), rebuilds harness and extracted model, runs the differential correspondence, writes evidence/<id>.json. See DESIGN.md.'

PENDING = 'check under construction in this session: the Coq model and harness for this property are not committed yet'
ALL = ['C%02d' % i for i in range(1, 21)]

CHECKS = {}
CHECKS['C02'] = dict(
    text='Kernel-checked proof that the code-shaped checksum step equals the bit-serial CRC-16/MCRF4XX register on all 2^24 (state, byte) pairs (reflection over 2^16 + 2^8 values and a GF(2) decomposition lemma), that hashing is split-independent, that the frame checksum is that CRC over length..payload+CRC_EXTRA, and that the reader gate is sound and complete on the model of frame.Reader.Read; the model is tied to the Go code on every run by differential execution (all 2^16 register states through the public API, all single-bit flips of sampled frames).',
    note='Trusted: Coq kernel, extraction (ExtrOcamlBasic), OCaml driver, Go harness; bufio modelled (Model/Stream.v); the theorem is about the Gallina transliteration of x25.go / reader.go, the tie is differential.',
    technique='Coq proof (reflection + bit-vector lemmas) + extracted-model differential against pkg/x25, pkg/frame',
)

NOT_APPLICABLE = [{'property_id': p, 'reason': PENDING} for p in ALL if p not in CHECKS]
