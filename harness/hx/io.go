package hx

import (
	"bufio"
	"errors"
	"fmt"
	"io"
	"strings"

	"github.com/bluenviron/gomavlib/v3/pkg/dialect"
	"github.com/bluenviron/gomavlib/v3/pkg/frame"
)

// ScriptErr is a scripted transport error with a small code (>= 2).
type ScriptErr struct{ Code int }

func (e ScriptErr) Error() string { return fmt.Sprintf("scripted error %d", e.Code) }

// Chunk is one underlying Read result: data, or an error when Err != 0.
type Chunk struct {
	Data []byte
	Err  int
}

// ScriptReader delivers chunks one underlying Read at a time.
type ScriptReader struct {
	Chunks []Chunk
	pos    int
	off    int
	Drawn  int // bytes handed out so far
	Faults int // errors handed out so far
}

func (s *ScriptReader) Read(p []byte) (int, error) {
	for s.pos < len(s.Chunks) {
		c := s.Chunks[s.pos]
		if c.Err != 0 {
			s.pos++
			s.Faults++
			return 0, ScriptErr{c.Err}
		}
		if s.off >= len(c.Data) {
			s.pos++
			s.off = 0
			continue
		}
		n := copy(p, c.Data[s.off:])
		s.off += n
		s.Drawn += n
		if s.off >= len(c.Data) {
			s.pos++
			s.off = 0
		}
		return n, nil
	}
	return 0, io.EOF
}

// Exhausted reports whether every chunk was delivered.
func (s *ScriptReader) Exhausted() bool { return s.pos >= len(s.Chunks) }

// ChunksText renders chunks for the model driver.
func ChunksText(cs []Chunk) string {
	var parts []string
	for _, c := range cs {
		if c.Err != 0 {
			parts = append(parts, fmt.Sprintf("!%d", c.Err))
		} else {
			parts = append(parts, Hex(c.Data))
		}
	}
	if len(parts) == 0 {
		return "-"
	}
	return strings.Join(parts, ",")
}

// ErrClass maps an error returned by Reader.Read to the model's result class.
func ErrClass(err error) string {
	var re frame.ReadError
	if errors.As(err, &re) {
		return "P"
	}
	var se ScriptErr
	if errors.As(err, &se) {
		return fmt.Sprintf("T%d", se.Code)
	}
	if err == io.EOF {
		return "T0"
	}
	if err == io.ErrUnexpectedEOF {
		return "T1"
	}
	return "T?" + err.Error()
}

// ReadAll runs a frame.Reader over the chunks until the transport is exhausted and reports the
// sequence of results in the model's format. perCall, when non-nil, receives bytes consumed per call.
// ReadAll reads everything and renders at once; ReadAllLater reads everything now and returns the
// rendering for later (the frames are kept as the reader returned them).
func ReadAll(cs []Chunk, drw *dialect.ReadWriter, key *frame.V2Key, perCall *[]int) string {
	return ReadAllLater(cs, drw, key, perCall)()
}

func ReadAllLater(cs []Chunk, drw *dialect.ReadWriter, key *frame.V2Key, perCall *[]int) func() string {
	total := 0
	for _, c := range cs {
		if c.Err != 0 {
			total++
		} else {
			total += len(c.Data)
		}
	}
	sr := &ScriptReader{Chunks: cs}
	br := bufio.NewReaderSize(sr, 512)
	rd := &frame.Reader{BufByteReader: br, DialectRW: drw, InKey: key}
	if err := rd.Initialize(); err != nil {
		return func() string { return "INITERR" }
	}
	// frames are kept as returned and rendered only when reading has ended: a returned frame
	// must not change because more input was read after it
	var out []string
	var kept []frame.Frame
	render := func() string {
		k := 0
		res := make([]string, len(out))
		for i, s := range out {
			if s == "F" {
				s = "F(" + Frame(kept[k]) + ")"
				k++
			}
			res[i] = s
		}
		return strings.Join(res, " ")
	}
	for i := 0; i < total+2; i++ {
		before := sr.Drawn - br.Buffered() + sr.Faults
		var fr frame.Frame
		var err error
		res := Safe(func() string {
			fr, err = rd.Read()
			return ""
		})
		if perCall != nil {
			*perCall = append(*perCall, (sr.Drawn-br.Buffered()+sr.Faults)-before)
		}
		if res == "panic" {
			out = append(out, "PANIC")
			return render
		}
		if err != nil {
			c := ErrClass(err)
			out = append(out, c)
			if c == "T0" && sr.Exhausted() && br.Buffered() == 0 {
				return render
			}
			continue
		}
		out = append(out, "F")
		kept = append(kept, fr)
	}
	out = append(out, "NOEND")
	return render
}
