// Package hx holds the text formats shared by the Go harness and the OCaml model driver,
// and the reflection helpers that turn gomavlib values into them.
package hx

import (
	"encoding/hex"
	"fmt"
	"math"
	"math/rand"
	"os"
	"reflect"
	"strconv"
	"strings"

	"github.com/bluenviron/gomavlib/v3/pkg/dialect"
	"github.com/bluenviron/gomavlib/v3/pkg/dialects/all"
	"github.com/bluenviron/gomavlib/v3/pkg/dialects/ardupilotmega"
	"github.com/bluenviron/gomavlib/v3/pkg/dialects/asluav"
	"github.com/bluenviron/gomavlib/v3/pkg/dialects/avssuas"
	"github.com/bluenviron/gomavlib/v3/pkg/dialects/common"
	"github.com/bluenviron/gomavlib/v3/pkg/dialects/csairlink"
	"github.com/bluenviron/gomavlib/v3/pkg/dialects/cubepilot"
	"github.com/bluenviron/gomavlib/v3/pkg/dialects/development"
	"github.com/bluenviron/gomavlib/v3/pkg/dialects/icarous"
	"github.com/bluenviron/gomavlib/v3/pkg/dialects/loweheiser"
	"github.com/bluenviron/gomavlib/v3/pkg/dialects/matrixpilot"
	"github.com/bluenviron/gomavlib/v3/pkg/dialects/minimal"
	"github.com/bluenviron/gomavlib/v3/pkg/dialects/paparazzi"
	"github.com/bluenviron/gomavlib/v3/pkg/dialects/pythonarraytest"
	"github.com/bluenviron/gomavlib/v3/pkg/dialects/standard"
	"github.com/bluenviron/gomavlib/v3/pkg/dialects/storm32"
	"github.com/bluenviron/gomavlib/v3/pkg/dialects/test"
	"github.com/bluenviron/gomavlib/v3/pkg/dialects/ualberta"
	"github.com/bluenviron/gomavlib/v3/pkg/dialects/uavionix"
	"github.com/bluenviron/gomavlib/v3/pkg/frame"
	"github.com/bluenviron/gomavlib/v3/pkg/message"
)

// NamedDialect is a shipped dialect with its package name.
type NamedDialect struct {
	Name string
	D    *dialect.Dialect
}

// Shipped lists the 19 shipped dialect packages in a fixed order.
func Shipped() []NamedDialect {
	return []NamedDialect{
		{"all", all.Dialect}, {"ardupilotmega", ardupilotmega.Dialect}, {"asluav", asluav.Dialect},
		{"avssuas", avssuas.Dialect}, {"common", common.Dialect}, {"csairlink", csairlink.Dialect},
		{"cubepilot", cubepilot.Dialect}, {"development", development.Dialect}, {"icarous", icarous.Dialect},
		{"loweheiser", loweheiser.Dialect}, {"matrixpilot", matrixpilot.Dialect}, {"minimal", minimal.Dialect},
		{"paparazzi", paparazzi.Dialect}, {"pythonarraytest", pythonarraytest.Dialect},
		{"standard", standard.Dialect}, {"storm32", storm32.Dialect}, {"test", test.Dialect},
		{"ualberta", ualberta.Dialect}, {"uavionix", uavionix.Dialect},
	}
}

// Seed returns VERIF_SEED or 1.
func Seed() int64 {
	if s := os.Getenv("VERIF_SEED"); s != "" {
		if v, err := strconv.ParseInt(s, 10, 64); err == nil {
			return v
		}
	}
	return 1
}

// NewRand returns the run's PRNG, offset by a per-generator salt.
func NewRand(salt int64) *rand.Rand { return rand.New(rand.NewSource(Seed()*1000003 + salt)) }

// Hex encodes bytes ("-" when empty).
func Hex(b []byte) string {
	if len(b) == 0 {
		return "-"
	}
	return hex.EncodeToString(b)
}

// HexS encodes a string.
func HexS(s string) string { return Hex([]byte(s)) }

func b01(b bool) string {
	if b {
		return "1"
	}
	return "0"
}

// GoStruct describes a message struct type the way Initialize sees it through reflect.
func GoStruct(t reflect.Type) string {
	parts := []string{HexS(t.Name())}
	for i := 0; i < t.NumField(); i++ {
		f := t.Field(i)
		gt := f.Type
		isarr := false
		arrlen := 0
		if gt.Kind() == reflect.Array {
			isarr = true
			arrlen = gt.Len()
			gt = gt.Elem()
		}
		parts = append(parts, strings.Join([]string{
			HexS(f.Name), b01(isarr), strconv.Itoa(arrlen), HexS(gt.Name()),
			b01(gt.Kind() == reflect.Uint64), b01(gt.Kind() == reflect.String),
			HexS(f.Tag.Get("mavenum")), HexS(f.Tag.Get("mavlen")), HexS(f.Tag.Get("mavext")),
			HexS(f.Tag.Get("mavname")),
		}, ":"))
	}
	return strings.Join(parts, "|")
}

func scalar(v reflect.Value) string {
	switch v.Kind() {
	case reflect.String:
		s := v.String()
		if s == "" {
			return "s"
		}
		return "s" + hex.EncodeToString([]byte(s))
	case reflect.Int8:
		return strconv.FormatUint(uint64(uint8(v.Int())), 10)
	case reflect.Int16:
		return strconv.FormatUint(uint64(uint16(v.Int())), 10)
	case reflect.Int32:
		return strconv.FormatUint(uint64(uint32(v.Int())), 10)
	case reflect.Int64:
		return strconv.FormatUint(uint64(v.Int()), 10)
	case reflect.Uint8, reflect.Uint16, reflect.Uint32, reflect.Uint64:
		return strconv.FormatUint(v.Uint(), 10)
	case reflect.Float32:
		// no float32->float64->float32 conversion: it would quiet signalling NaNs
		return strconv.FormatUint(uint64(math.Float32bits(*(v.Addr().Interface().(*float32)))), 10)
	case reflect.Float64:
		return strconv.FormatUint(math.Float64bits(v.Float()), 10)
	}
	return "?" + v.Kind().String()
}

// Value renders a decoded message as the model's canonical value tree.
func Value(m message.Message) string {
	v := reflect.ValueOf(m).Elem()
	if v.NumField() == 0 {
		return "-"
	}
	var parts []string
	for i := 0; i < v.NumField(); i++ {
		f := v.Field(i)
		if f.Kind() == reflect.Array {
			var el []string
			for j := 0; j < f.Len(); j++ {
				el = append(el, scalar(f.Index(j)))
			}
			parts = append(parts, "["+strings.Join(el, ";")+"]")
		} else {
			parts = append(parts, scalar(f))
		}
	}
	return strings.Join(parts, ",")
}

// Msg renders a message (raw or decoded).
func Msg(m message.Message) string {
	if r, ok := m.(*message.MessageRaw); ok {
		return fmt.Sprintf("R~%d~%s", r.ID, Hex(r.Payload))
	}
	return fmt.Sprintf("D~%d~%s", m.GetID(), Value(m))
}

// Frame renders a frame.
func Frame(fr frame.Frame) string {
	switch f := fr.(type) {
	case *frame.V1Frame:
		return fmt.Sprintf("0|0|0|%d|%d|%d|%s|%d|0|0|nil", f.SequenceNumber, f.SystemID, f.ComponentID,
			Msg(f.Message), f.Checksum)
	case *frame.V2Frame:
		sig := "nil"
		if f.Signature != nil {
			sig = Hex(f.Signature[:])
		}
		return fmt.Sprintf("1|%d|%d|%d|%d|%d|%s|%d|%d|%d|%s", f.IncompatibilityFlag, f.CompatibilityFlag,
			f.SequenceNumber, f.SystemID, f.ComponentID, Msg(f.Message), f.Checksum,
			f.SignatureLinkID, f.SignatureTimestamp, sig)
	}
	return "?"
}

var boundary64 = []uint64{0, 1, 2, 0x7f, 0x80, 0xff, 0x100, 0x7fff, 0x8000, 0xffff, 0x10000, 0x7fffffff,
	0x80000000, 0xffffffff, 0x100000000, 0x7fffffffffffffff, 0x8000000000000000, 0xffffffffffffffff,
	0x7fc00000, 0xffc00001, 0x7ff8000000000001, 0x8000000000000000, 0x3f800000, 0x3ff0000000000000}

// RandU64 draws a boundary-heavy 64-bit pattern.
func RandU64(r *rand.Rand) uint64 {
	switch r.Intn(3) {
	case 0:
		return boundary64[r.Intn(len(boundary64))]
	case 1:
		return r.Uint64()
	default:
		return r.Uint64() >> uint(r.Intn(64))
	}
}

func randString(r *rand.Rand, maxLen int) string {
	n := 0
	switch r.Intn(5) {
	case 0:
		n = 0
	case 1:
		n = maxLen
	case 2:
		n = maxLen + 1 + r.Intn(3)
	default:
		n = r.Intn(maxLen + 1)
	}
	b := make([]byte, n)
	for i := range b {
		if r.Intn(12) == 0 {
			b[i] = 0
		} else {
			b[i] = byte(1 + r.Intn(255))
		}
	}
	return string(b)
}

func setScalar(r *rand.Rand, v reflect.Value, mode int, strLen int) {
	var x uint64
	switch mode {
	case 0:
		x = 0
	case 1:
		x = ^uint64(0)
	default:
		x = RandU64(r)
	}
	switch v.Kind() {
	case reflect.String:
		switch mode {
		case 0:
			v.SetString("")
		case 1:
			v.SetString(strings.Repeat("\xff", strLen))
		default:
			v.SetString(randString(r, strLen))
		}
	case reflect.Int8, reflect.Int16, reflect.Int32, reflect.Int64:
		switch v.Kind() {
		case reflect.Int8:
			v.SetInt(int64(int8(x)))
		case reflect.Int16:
			v.SetInt(int64(int16(x)))
		case reflect.Int32:
			v.SetInt(int64(int32(x)))
		default:
			v.SetInt(int64(x))
		}
	case reflect.Uint8:
		v.SetUint(uint64(uint8(x)))
	case reflect.Uint16:
		v.SetUint(uint64(uint16(x)))
	case reflect.Uint32:
		v.SetUint(uint64(uint32(x)))
	case reflect.Uint64:
		v.SetUint(x)
	case reflect.Float32:
		*(v.Addr().Interface().(*float32)) = math.Float32frombits(uint32(x))
	case reflect.Float64:
		v.SetFloat(math.Float64frombits(x))
	}
}

// RandMessage builds a value of m's type. mode 0 = all zero, 1 = all ones, 2 = random/boundary.
func RandMessage(r *rand.Rand, proto message.Message, mode int) message.Message {
	t := reflect.TypeOf(proto).Elem()
	nv := reflect.New(t)
	for i := 0; i < t.NumField(); i++ {
		f := nv.Elem().Field(i)
		strLen := 1
		if l := t.Field(i).Tag.Get("mavlen"); l != "" {
			strLen, _ = strconv.Atoi(l)
		}
		if f.Kind() == reflect.Array {
			for j := 0; j < f.Len(); j++ {
				setScalar(r, f.Index(j), mode, strLen)
			}
		} else {
			setScalar(r, f, mode, strLen)
		}
	}
	return nv.Interface().(message.Message)
}

// Out collects the case lines for the model and the implementation's answers.
type Out struct {
	Cases *os.File
	Impl  *os.File
	N     int
	Hist  map[string]int
	// answers that are rendered later (AddLater): lines held back since the oldest pending one
	buf     []string
	pending []pendingLine
}

type pendingLine struct {
	f   func() string
	idx int // position in buf
	at  int // N when it was added
}

// laterWindow: how many more cases are recorded before a deferred answer is rendered.
const laterWindow = 300

// NewOut opens cases.txt / impl.txt in dir.
func NewOut(dir string) *Out {
	os.MkdirAll(dir, 0o755)
	c, err := os.Create(dir + "/cases.txt")
	if err != nil {
		panic(err)
	}
	i, err := os.Create(dir + "/impl.txt")
	if err != nil {
		panic(err)
	}
	return &Out{Cases: c, Impl: i, Hist: map[string]int{}}
}

// Add records one case (tab-separated fields), what the implementation answered and a histogram class.
func (o *Out) Add(class string, impl string, fields ...string) {
	fmt.Fprintln(o.Cases, strings.Join(fields, "\t"))
	if len(o.pending) == 0 {
		fmt.Fprintln(o.Impl, impl)
	} else {
		o.buf = append(o.buf, impl)
	}
	o.N++
	o.Hist[class]++
	o.tick(false)
}

// AddLater records a case whose answer is rendered only after laterWindow more cases (or at the end):
// what the library handed out — a payload, a frame, a text — must still be what it was when other
// calls have been made in the meantime. f must hold on to the objects themselves, not to copies.
func (o *Out) AddLater(class string, f func() string, fields ...string) {
	fmt.Fprintln(o.Cases, strings.Join(fields, "\t"))
	o.buf = append(o.buf, "")
	o.pending = append(o.pending, pendingLine{f: f, idx: len(o.buf) - 1, at: o.N})
	o.N++
	o.Hist[class]++
	o.tick(false)
}

func (o *Out) tick(all bool) {
	for len(o.pending) > 0 && (all || o.N-o.pending[0].at >= laterWindow) {
		p := o.pending[0]
		o.buf[p.idx] = Safe(p.f)
		o.pending = o.pending[1:]
	}
	// write out what no longer waits for an earlier line
	upto := len(o.buf)
	if len(o.pending) > 0 {
		upto = o.pending[0].idx
	}
	if upto > 0 {
		for _, l := range o.buf[:upto] {
			fmt.Fprintln(o.Impl, l)
		}
		o.buf = append([]string(nil), o.buf[upto:]...)
		for i := range o.pending {
			o.pending[i].idx -= upto
		}
	}
}

// Close flushes and writes the histogram.
func (o *Out) Close(dir string) {
	o.tick(true)
	o.Cases.Close()
	o.Impl.Close()
	h, _ := os.Create(dir + "/hist.txt")
	for k, v := range o.Hist {
		fmt.Fprintf(h, "%s\t%d\n", k, v)
	}
	h.Close()
}

// Safe runs f and reports a panic as a string.
func Safe(f func() string) (out string) {
	defer func() {
		if r := recover(); r != nil {
			out = "panic"
		}
	}()
	return f()
}
