// Package scn is the scenario library of the verification harness: scripted in-memory
// transports, an event collector, wire decoding and leak probes around a real gomavlib.Node.
package scn

import (
	"bytes"
	"errors"
	"fmt"
	"io"
	"runtime"
	"strings"
	"sync"
	"sync/atomic"
	"time"

	"github.com/bluenviron/gomavlib/v3"
	"github.com/bluenviron/gomavlib/v3/pkg/dialect"
	"github.com/bluenviron/gomavlib/v3/pkg/frame"

	"verifharness/hx"
)

// Timeout is how long the harness waits for a predicted observable. After two expired waits in one
// run (the tree under test is then very likely broken) later waits are cut to 3 s so that a
// failing run still ends in reasonable time.
var Timeout = 20 * time.Second

var expired int32

func noteExpired() {
	if atomic.AddInt32(&expired, 1) >= 2 {
		Timeout = 3 * time.Second
	}
}

// NoteExpired records a wait that expired outside this package.
func NoteExpired() { noteExpired() }

type chunk struct {
	data []byte
	err  error
}

// Pipe is a scripted io.ReadWriteCloser.
type Pipe struct {
	Name string

	in       chan chunk
	closed   chan struct{}
	closeOne sync.Once
	Closes   int32

	mu        sync.Mutex
	left      []byte
	writes    [][]byte
	wtimes    []time.Time
	wcount    int
	failAt    map[int]bool
	blocked   bool
	unblock   chan struct{}
	wsignal   chan struct{}
	BlockedIn int32 // number of Write calls currently blocked
	slowClose int64
}

// NewPipe allocates a Pipe.
func NewPipe(name string) *Pipe {
	return &Pipe{Name: name, in: make(chan chunk, 100000), closed: make(chan struct{}), failAt: map[int]bool{},
		unblock: make(chan struct{}), wsignal: make(chan struct{}, 1)}
}

// Feed makes data available to Read as one chunk.
func (p *Pipe) Feed(b []byte) { p.in <- chunk{data: append([]byte(nil), b...)} }

// FeedErr makes the next Read return err.
func (p *Pipe) FeedErr(err error) { p.in <- chunk{err: err} }

func (p *Pipe) Read(b []byte) (int, error) {
	p.mu.Lock()
	if len(p.left) > 0 {
		n := copy(b, p.left)
		p.left = p.left[n:]
		p.mu.Unlock()
		return n, nil
	}
	p.mu.Unlock()
	select {
	case c := <-p.in:
		if c.err != nil {
			return 0, c.err
		}
		n := copy(b, c.data)
		if n < len(c.data) {
			p.mu.Lock()
			p.left = c.data[n:]
			p.mu.Unlock()
		}
		return n, nil
	case <-p.closed:
		if d := time.Duration(atomic.LoadInt64(&p.slowClose)); d > 0 {
			time.Sleep(d) // a transport whose blocked Read is released late
		}
		return 0, io.ErrClosedPipe
	}
}

// SlowClose makes a Read that is blocked when the pipe is closed return only d later.
func (p *Pipe) SlowClose(d time.Duration) { atomic.StoreInt64(&p.slowClose, int64(d)) }

// BlockWrites makes Write calls block until UnblockWrites or Close.
func (p *Pipe) BlockWrites() {
	p.mu.Lock()
	p.blocked = true
	p.unblock = make(chan struct{})
	p.mu.Unlock()
}

// UnblockWrites releases blocked Write calls.
func (p *Pipe) UnblockWrites() {
	p.mu.Lock()
	if p.blocked {
		p.blocked = false
		close(p.unblock)
	}
	p.mu.Unlock()
}

// FailWriteAt makes the k-th Write call (1-based) fail.
func (p *Pipe) FailWriteAt(k int) {
	p.mu.Lock()
	p.failAt[k] = true
	p.mu.Unlock()
}

func (p *Pipe) Write(b []byte) (int, error) {
	p.mu.Lock()
	p.wcount++
	k := p.wcount
	fail := p.failAt[k]
	blocked := p.blocked
	ub := p.unblock
	p.mu.Unlock()
	if fail {
		return 0, errors.New("scripted write failure")
	}
	if blocked {
		atomic.AddInt32(&p.BlockedIn, 1)
		select {
		case <-ub:
			atomic.AddInt32(&p.BlockedIn, -1)
		case <-p.closed:
			atomic.AddInt32(&p.BlockedIn, -1)
			return 0, io.ErrClosedPipe
		}
	}
	select {
	case <-p.closed:
		return 0, io.ErrClosedPipe
	default:
	}
	p.mu.Lock()
	p.writes = append(p.writes, append([]byte(nil), b...))
	p.wtimes = append(p.wtimes, time.Now())
	p.mu.Unlock()
	select {
	case p.wsignal <- struct{}{}:
	default:
	}
	return len(b), nil
}

// Close closes the pipe (counts calls).
func (p *Pipe) Close() error {
	atomic.AddInt32(&p.Closes, 1)
	p.closeOne.Do(func() { close(p.closed) })
	return nil
}

// Writes returns a copy of the byte strings written so far, one per Write call.
func (p *Pipe) Writes() [][]byte {
	p.mu.Lock()
	defer p.mu.Unlock()
	return append([][]byte(nil), p.writes...)
}

// WriteTimes returns the time of each Write call.
func (p *Pipe) WriteTimes() []time.Time {
	p.mu.Lock()
	defer p.mu.Unlock()
	return append([]time.Time(nil), p.wtimes...)
}

// WaitWrites waits until pred holds of the writes.
func (p *Pipe) WaitWrites(pred func([][]byte) bool) bool {
	deadline := time.Now().Add(Timeout)
	for {
		if pred(p.Writes()) {
			return true
		}
		if time.Now().After(deadline) {
			noteExpired()
			return false
		}
		select {
		case <-p.wsignal:
		case <-time.After(5 * time.Millisecond):
		}
	}
}

// Collector consumes Node.Events() and keeps, per channel, the ordered events.
type Collector struct {
	mu      sync.Mutex
	order   []*gomavlib.Channel
	evs     map[*gomavlib.Channel][]gomavlib.Event
	all     []gomavlib.Event
	paused  chan struct{}
	slow    time.Duration
	Done    chan struct{}
	pauseMu sync.Mutex
}

// NewCollector starts consuming events. slow > 0 sleeps that long after each event.
func NewCollector(n *gomavlib.Node, slow time.Duration, startPaused bool) *Collector {
	c := &Collector{evs: map[*gomavlib.Channel][]gomavlib.Event{}, Done: make(chan struct{}), slow: slow}
	if startPaused {
		c.paused = make(chan struct{})
	}
	go func() {
		defer close(c.Done)
		for {
			c.pauseMu.Lock()
			pz := c.paused
			c.pauseMu.Unlock()
			if pz != nil {
				<-pz
			}
			evt, ok := <-n.Events()
			if !ok {
				return
			}
			c.add(evt)
			if c.slow > 0 {
				time.Sleep(c.slow)
			}
		}
	}()
	return c
}

// Pause stops consuming after the current event.
func (c *Collector) Pause() {
	c.pauseMu.Lock()
	if c.paused == nil {
		c.paused = make(chan struct{})
	}
	c.pauseMu.Unlock()
}

// Resume resumes consuming.
func (c *Collector) Resume() {
	c.pauseMu.Lock()
	if c.paused != nil {
		close(c.paused)
		c.paused = nil
	}
	c.pauseMu.Unlock()
}

func chanOf(evt gomavlib.Event) *gomavlib.Channel {
	switch e := evt.(type) {
	case *gomavlib.EventChannelOpen:
		return e.Channel
	case *gomavlib.EventChannelClose:
		return e.Channel
	case *gomavlib.EventFrame:
		return e.Channel
	case *gomavlib.EventParseError:
		return e.Channel
	case *gomavlib.EventStreamRequested:
		return e.Channel
	}
	return nil
}

func (c *Collector) add(evt gomavlib.Event) {
	ch := chanOf(evt)
	c.mu.Lock()
	if _, ok := c.evs[ch]; !ok {
		c.order = append(c.order, ch)
	}
	c.evs[ch] = append(c.evs[ch], evt)
	c.all = append(c.all, evt)
	c.mu.Unlock()
}

// Channels returns the channels seen so far in order of first appearance.
func (c *Collector) Channels() []*gomavlib.Channel {
	c.mu.Lock()
	defer c.mu.Unlock()
	return append([]*gomavlib.Channel(nil), c.order...)
}

// Events returns the events of one channel.
func (c *Collector) Events(ch *gomavlib.Channel) []gomavlib.Event {
	c.mu.Lock()
	defer c.mu.Unlock()
	return append([]gomavlib.Event(nil), c.evs[ch]...)
}

// Count returns the total number of events received.
func (c *Collector) Count() int {
	c.mu.Lock()
	defer c.mu.Unlock()
	return len(c.all)
}

// Wait waits until pred holds.
func (c *Collector) Wait(pred func() bool) bool {
	deadline := time.Now().Add(Timeout)
	for !pred() {
		if time.Now().After(deadline) {
			noteExpired()
			return false
		}
		time.Sleep(2 * time.Millisecond)
	}
	return true
}

// PipeOf returns the pipe behind a channel of a custom endpoint.
func PipeOf(ch *gomavlib.Channel) *Pipe {
	if ec, ok := ch.Endpoint().Conf().(gomavlib.EndpointCustom); ok {
		if p, ok := ec.ReadWriteCloser.(*Pipe); ok {
			return p
		}
	}
	return nil
}

// EventsText renders a channel's events in the model's format: O, F(frame), P, S, C.
func EventsText(evs []gomavlib.Event) string {
	var out []string
	for _, e := range evs {
		switch e := e.(type) {
		case *gomavlib.EventChannelOpen:
			out = append(out, "O")
		case *gomavlib.EventChannelClose:
			out = append(out, "C")
		case *gomavlib.EventFrame:
			out = append(out, "F("+hx.Frame(e.Frame)+")")
		case *gomavlib.EventParseError:
			out = append(out, "P")
		case *gomavlib.EventStreamRequested:
			out = append(out, fmt.Sprintf("S(%d,%d)", e.SystemID, e.ComponentID))
		}
	}
	if len(out) == 0 {
		return "-"
	}
	return strings.Join(out, " ")
}

// DecodeWire parses every Write call of a pipe as exactly one frame (frames are written whole).
func DecodeWire(writes [][]byte, drw *dialect.ReadWriter) ([]frame.Frame, error) {
	var out []frame.Frame
	for i, w := range writes {
		rd := &frame.Reader{ByteReader: bytes.NewReader(w), DialectRW: drw}
		if err := rd.Initialize(); err != nil {
			return nil, err
		}
		fr, err := rd.Read()
		if err != nil {
			return out, fmt.Errorf("write %d is not one valid frame: %v", i, err)
		}
		if _, err := rd.Read(); err != io.EOF {
			return out, fmt.Errorf("write %d holds more than one frame", i)
		}
		out = append(out, fr)
	}
	return out, nil
}

// LeaksAfter reports the goroutines that still run gomavlib code once the grace period is over
// (one look, no polling).
func LeaksAfter(grace time.Duration) string {
	time.Sleep(grace)
	return leaks(time.Now())
}

// Leaks reports goroutines that still run gomavlib code (polls up to 3 s for them to exit).
func Leaks() string { return leaks(time.Now().Add(3 * time.Second)) }

func leaks(deadline time.Time) string {
	for {
		buf := make([]byte, 1<<20)
		n := runtime.Stack(buf, true)
		var bad []string
		for _, g := range strings.Split(string(buf[:n]), "\n\n") {
			if (strings.Contains(g, "bluenviron/gomavlib/v3.") || strings.Contains(g, "gomavlib/v3/pkg/") ||
				strings.Contains(g, "pion/transport")) && !strings.Contains(g, "verifharness/scn.leaks") {
				first := strings.SplitN(g, "\n", 2)[0]
				fn := ""
				for _, l := range strings.Split(g, "\n") {
					if strings.Contains(l, "gomavlib") || strings.Contains(l, "pion") {
						fn = strings.TrimSpace(l)
						break
					}
				}
				bad = append(bad, first+" "+fn)
			}
		}
		if len(bad) == 0 {
			return ""
		}
		if time.Now().After(deadline) {
			return strings.Join(bad, "; ")
		}
		time.Sleep(10 * time.Millisecond)
	}
}

// CloseWithin calls node.Close() and reports whether it returned within d.
func CloseWithin(n *gomavlib.Node, d time.Duration) bool {
	done := make(chan struct{})
	go func() {
		n.Close()
		close(done)
	}()
	select {
	case <-done:
		return true
	case <-time.After(d):
		return false
	}
}
