module verifharness

go 1.21.0

require github.com/bluenviron/gomavlib/v3 v3.0.0

require (
	github.com/creack/goselect v0.1.2 // indirect
	github.com/pion/logging v0.2.2 // indirect
	github.com/pion/transport/v2 v2.2.10 // indirect
	go.bug.st/serial v1.6.3 // indirect
	golang.org/x/net v0.33.0 // indirect
	golang.org/x/sys v0.28.0 // indirect
)

replace github.com/bluenviron/gomavlib/v3 => /repo
