module verifharness

go 1.21.0

require github.com/bluenviron/gomavlib/v3 v3.0.0

replace github.com/bluenviron/gomavlib/v3 => /repo
