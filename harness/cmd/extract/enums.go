package main

import (
	"fmt"
	"go/ast"
	"go/parser"
	"go/token"
	"os"
	"path/filepath"
	"sort"
	"strconv"
	"strings"
)

func init() { emitters = append(emitters, emitEnums) }

type enumInfo struct {
	pkg, name string
	alias     string // "pkg.NAME" when type X = pkg.X
	bitmask   bool
	bound     int64
	consts    []constInfo
	labels    [][2]string // const name -> label
	values    [][2]string // label -> const name
	hasText   bool
}
type constInfo struct {
	name string
	expr ast.Expr
}

func repoRoot() string {
	if r := os.Getenv("VERIF_REPO"); r != "" {
		return r
	}
	return "/repo"
}

// emitEnums parses every pkg/dialects/*/enum_*.go with go/ast: the const block, the labels_ and
// values_ maps, whether MarshalText is the bitmask variant and its loop bound.
func emitEnums(dir string) error {
	root := filepath.Join(repoRoot(), "pkg", "dialects")
	pkgs, err := os.ReadDir(root)
	if err != nil {
		return err
	}
	fset := token.NewFileSet()
	var enums []*enumInfo
	consts := map[string]ast.Expr{} // "pkg.NAME" -> expr
	constPkg := map[string]string{}
	for _, p := range pkgs {
		if !p.IsDir() {
			continue
		}
		files, _ := filepath.Glob(filepath.Join(root, p.Name(), "enum_*.go"))
		sort.Strings(files)
		for _, fn := range files {
			f, err := parser.ParseFile(fset, fn, nil, 0)
			if err != nil {
				return err
			}
			e := &enumInfo{pkg: p.Name()}
			for _, d := range f.Decls {
				switch d := d.(type) {
				case *ast.GenDecl:
					for _, sp := range d.Specs {
						switch sp := sp.(type) {
						case *ast.TypeSpec:
							e.name = sp.Name.Name
							if sp.Assign != token.NoPos {
								if se, ok := sp.Type.(*ast.SelectorExpr); ok {
									e.alias = se.X.(*ast.Ident).Name + "." + se.Sel.Name
								}
							}
						case *ast.ValueSpec:
							if d.Tok == token.CONST {
								for i, n := range sp.Names {
									if i < len(sp.Values) {
										e.consts = append(e.consts, constInfo{n.Name, sp.Values[i]})
										consts[p.Name()+"."+n.Name] = sp.Values[i]
										constPkg[p.Name()+"."+n.Name] = p.Name()
									}
								}
							} else if d.Tok == token.VAR && len(sp.Values) == 1 {
								cl, ok := sp.Values[0].(*ast.CompositeLit)
								if !ok {
									continue
								}
								for _, el := range cl.Elts {
									kv, ok := el.(*ast.KeyValueExpr)
									if !ok {
										continue
									}
									if strings.HasPrefix(sp.Names[0].Name, "labels_") {
										lit, _ := strconv.Unquote(kv.Value.(*ast.BasicLit).Value)
										e.labels = append(e.labels, [2]string{kv.Key.(*ast.Ident).Name, lit})
									} else if strings.HasPrefix(sp.Names[0].Name, "values_") {
										lit, _ := strconv.Unquote(kv.Key.(*ast.BasicLit).Value)
										e.values = append(e.values, [2]string{lit, kv.Value.(*ast.Ident).Name})
									}
								}
							}
						}
					}
				case *ast.FuncDecl:
					if d.Name.Name == "MarshalText" {
						e.hasText = true
						ast.Inspect(d.Body, func(n ast.Node) bool {
							if fs, ok := n.(*ast.ForStmt); ok {
								e.bitmask = true
								if be, ok := fs.Cond.(*ast.BinaryExpr); ok {
									if bl, ok := be.Y.(*ast.BasicLit); ok {
										e.bound, _ = strconv.ParseInt(bl.Value, 0, 64)
									}
								}
							}
							return true
						})
					}
				}
			}
			if e.name != "" {
				enums = append(enums, e)
			}
		}
	}
	var eval func(pkg string, x ast.Expr, depth int) (uint64, error)
	eval = func(pkg string, x ast.Expr, depth int) (uint64, error) {
		if depth > 20 {
			return 0, fmt.Errorf("constant reference too deep")
		}
		switch x := x.(type) {
		case *ast.BasicLit:
			return strconv.ParseUint(strings.ReplaceAll(x.Value, "_", ""), 0, 64)
		case *ast.SelectorExpr:
			k := x.X.(*ast.Ident).Name + "." + x.Sel.Name
			if e, ok := consts[k]; ok {
				return eval(constPkg[k], e, depth+1)
			}
			return 0, fmt.Errorf("unknown constant %s", k)
		case *ast.Ident:
			k := pkg + "." + x.Name
			if e, ok := consts[k]; ok {
				return eval(pkg, e, depth+1)
			}
			return 0, fmt.Errorf("unknown constant %s", k)
		case *ast.ParenExpr:
			return eval(pkg, x.X, depth)
		case *ast.BinaryExpr:
			a, err := eval(pkg, x.X, depth)
			if err != nil {
				return 0, err
			}
			b, err := eval(pkg, x.Y, depth)
			if err != nil {
				return 0, err
			}
			switch x.Op {
			case token.SHL:
				return a << b, nil
			case token.OR:
				return a | b, nil
			case token.ADD:
				return a + b, nil
			case token.MUL:
				return a * b, nil
			}
		}
		return 0, fmt.Errorf("unsupported constant expression %T", x)
	}

	var sb strings.Builder
	sb.WriteString("(* GENERATED from /repo/pkg/dialects/*/enum_*.go by harness/cmd/extract on every run. Do not edit. *)\n")
	sb.WriteString("From GM Require Import Tables.\nOpen Scope string_scope.\n\n")
	n := 0
	var names []string
	for _, e := range enums {
		if e.alias != "" {
			continue
		}
		cv := map[string]uint64{}
		fmt.Fprintf(&sb, "Definition E%d : genum := mkGE %s %s %s %d\n  [", n, q(e.pkg), q(e.name), cb(e.bitmask), e.bound)
		for i, c := range e.consts {
			v, err := eval(e.pkg, c.expr, 0)
			if err != nil {
				return fmt.Errorf("%s.%s: %v", e.pkg, c.name, err)
			}
			cv[c.name] = v
			if i > 0 {
				sb.WriteString("; ")
			}
			fmt.Fprintf(&sb, "(%s, %d)", q(c.name), v)
		}
		sb.WriteString("]\n  [")
		for i, l := range e.labels {
			v, ok := cv[l[0]]
			if !ok {
				return fmt.Errorf("%s.%s: label key %s is not a constant of the enum", e.pkg, e.name, l[0])
			}
			if i > 0 {
				sb.WriteString("; ")
			}
			fmt.Fprintf(&sb, "(%d, %s)", v, q(l[1]))
		}
		sb.WriteString("]\n  [")
		for i, l := range e.values {
			v, ok := cv[l[1]]
			if !ok {
				return fmt.Errorf("%s.%s: value %s is not a constant of the enum", e.pkg, e.name, l[1])
			}
			if i > 0 {
				sb.WriteString("; ")
			}
			fmt.Fprintf(&sb, "(%s, %d)", q(l[0]), v)
		}
		sb.WriteString("].\n")
		names = append(names, fmt.Sprintf("E%d", n))
		n++
	}
	fmt.Fprintf(&sb, "\nDefinition enums : list genum := [%s].\n\n", strings.Join(names, "; "))
	// every constant name with its value in every package that declares or re-exports it
	// (aliases resolved), for cross-dialect agreement
	byName := map[string][]uint64{}
	var cnames []string
	for _, e := range enums {
		for _, c := range e.consts {
			v, err := eval(e.pkg, c.expr, 0)
			if err != nil {
				return fmt.Errorf("%s.%s: %v", e.pkg, c.name, err)
			}
			if _, ok := byName[c.name]; !ok {
				cnames = append(cnames, c.name)
			}
			byName[c.name] = append(byName[c.name], v)
		}
	}
	sb.WriteString("Definition enum_consts : list (string * list N) := [\n")
	for i, nme := range cnames {
		if i > 0 {
			sb.WriteString(";\n")
		}
		var vs []string
		for _, v := range byName[nme] {
			vs = append(vs, strconv.FormatUint(v, 10))
		}
		fmt.Fprintf(&sb, "  (%s, [%s])", q(nme), strings.Join(vs, "; "))
	}
	sb.WriteString("\n].\n")
	if err := os.WriteFile(dir+"/Enums.v", []byte(sb.String()), 0o644); err != nil {
		return err
	}
	if len(os.Args) < 3 {
		return nil
	}
	// Go registry for the correspondence harness: one entry per enum type with closures over its
	// MarshalText / UnmarshalText and the map contents read from the source.
	var gb strings.Builder
	gb.WriteString("// Code generated by harness/cmd/extract from /repo/pkg/dialects. DO NOT EDIT.\n\npackage main\n\nimport (\n")
	pkgset := map[string]bool{}
	for _, e := range enums {
		if e.alias == "" && e.hasText {
			pkgset[e.pkg] = true
		}
	}
	var pkgl []string
	for p := range pkgset {
		pkgl = append(pkgl, p)
	}
	sort.Strings(pkgl)
	for _, p := range pkgl {
		fmt.Fprintf(&gb, "\t%q\n", "github.com/bluenviron/gomavlib/v3/pkg/dialects/"+p)
	}
	gb.WriteString(")\n\nfunc init() {\n\tenumRegistry = []enumEntry{\n")
	for _, e := range enums {
		if e.alias != "" || !e.hasText {
			continue
		}
		fmt.Fprintf(&gb, "\t\t{Pkg: %q, Name: %q, Bitmask: %v, Bound: %d,\n", e.pkg, e.name, e.bitmask, e.bound)
		fmt.Fprintf(&gb, "\t\t\tMarshal: func(v uint64) (string, error) { b, err := %s.%s(v).MarshalText(); return string(b), err },\n", e.pkg, e.name)
		fmt.Fprintf(&gb, "\t\t\tMarshalRaw: func(v uint64) ([]byte, error) { return %s.%s(v).MarshalText() },\n", e.pkg, e.name)
		fmt.Fprintf(&gb, "\t\t\tUnmarshal: func(s string) (uint64, error) { e := %s.%s(0xAAAAAAAAAAAAAAAA); err := e.UnmarshalText([]byte(s)); return uint64(e), err },\n", e.pkg, e.name)
		gb.WriteString("\t\t\tConsts: []enumConst{")
		cv := map[string]uint64{}
		for _, c := range e.consts {
			v, _ := eval(e.pkg, c.expr, 0)
			cv[c.name] = v
			fmt.Fprintf(&gb, "{%q, %d}, ", c.name, v)
		}
		gb.WriteString("},\n\t\t\tLabels: []enumConst{")
		for _, l := range e.labels {
			fmt.Fprintf(&gb, "{%q, %d}, ", l[1], cv[l[0]])
		}
		gb.WriteString("},\n\t\t\tValues: []enumConst{")
		for _, l := range e.values {
			fmt.Fprintf(&gb, "{%q, %d}, ", l[0], cv[l[1]])
		}
		gb.WriteString("}},\n")
	}
	gb.WriteString("\t}\n}\n")
	return os.WriteFile(os.Args[2], []byte(gb.String()), 0o644)
}
