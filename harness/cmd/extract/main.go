// Command extract regenerates the Coq tables (coq/gen/*.v) from /repo's current sources.
package main

import (
	"fmt"
	"os"
)

type emitter func(dir string) error

var emitters []emitter

func main() {
	if len(os.Args) < 2 {
		fmt.Fprintln(os.Stderr, "usage: extract <outdir>")
		os.Exit(2)
	}
	for _, e := range emitters {
		if err := e(os.Args[1]); err != nil {
			fmt.Fprintln(os.Stderr, "extract:", err)
			os.Exit(1)
		}
	}
}
