package main

import (
	"fmt"
	"os"
	"reflect"
	"strings"

	"verifharness/hx"
)

func init() { emitters = append(emitters, emitDialects) }

func q(s string) string {
	return "\"" + strings.ReplaceAll(s, "\"", "\"\"") + "\""
}

func cb(b bool) string {
	if b {
		return "true"
	}
	return "false"
}

// emitDialects writes gen/Dialects.v: every distinct message struct type of the shipped
// dialects as the model's gostruct (what Initialize sees through reflect), and per dialect its
// version and (message id, struct index) list.  Struct index = identity class of reflect.Type.
func emitDialects(dir string) error {
	var sb strings.Builder
	sb.WriteString("(* GENERATED from /repo by harness/cmd/extract on every run. Do not edit. *)\n")
	sb.WriteString("From GM Require Import Tables.\nOpen Scope string_scope.\n\n")
	index := map[reflect.Type]int{}
	var order []reflect.Type
	type dm struct {
		id  uint32
		idx int
	}
	dialects := map[string][]dm{}
	for _, nd := range hx.Shipped() {
		for _, m := range nd.D.Messages {
			t := reflect.TypeOf(m).Elem()
			i, ok := index[t]
			if !ok {
				i = len(order)
				index[t] = i
				order = append(order, t)
			}
			dialects[nd.Name] = append(dialects[nd.Name], dm{m.GetID(), i})
		}
	}
	for i, t := range order {
		fmt.Fprintf(&sb, "Definition S%d : gstruct := mkGS %s %s [\n", i, q(t.PkgPath()[strings.LastIndex(t.PkgPath(), "/")+1:]), q(t.Name()))
		for j := 0; j < t.NumField(); j++ {
			f := t.Field(j)
			gt := f.Type
			isarr := false
			arrlen := 0
			if gt.Kind() == reflect.Array {
				isarr = true
				arrlen = gt.Len()
				gt = gt.Elem()
			}
			sep := ";"
			if j == t.NumField()-1 {
				sep = ""
			}
			fmt.Fprintf(&sb, "  gf %s %s %d %s %s %s %s %s %s %s%s\n", q(f.Name), cb(isarr), arrlen, q(gt.Name()),
				cb(gt.Kind() == reflect.Uint64), cb(gt.Kind() == reflect.String),
				q(f.Tag.Get("mavenum")), q(f.Tag.Get("mavlen")), q(f.Tag.Get("mavext")), q(f.Tag.Get("mavname")), sep)
		}
		sb.WriteString("].\n")
	}
	sb.WriteString("\nDefinition structs : list gstruct := [")
	for i := range order {
		if i > 0 {
			sb.WriteString("; ")
		}
		fmt.Fprintf(&sb, "S%d", i)
	}
	sb.WriteString("].\n\n")
	sb.WriteString("Definition shipped : list gdialect := [\n")
	for k, nd := range hx.Shipped() {
		fmt.Fprintf(&sb, "  mkGD %s %d [", q(nd.Name), nd.D.Version)
		for i, m := range dialects[nd.Name] {
			if i > 0 {
				sb.WriteString("; ")
			}
			fmt.Fprintf(&sb, "(%d, %d%%nat)", m.id, m.idx)
		}
		sb.WriteString("]")
		if k < len(hx.Shipped())-1 {
			sb.WriteString(";")
		}
		sb.WriteString("\n")
	}
	sb.WriteString("].\n")
	return os.WriteFile(dir+"/Dialects.v", []byte(sb.String()), 0o644)
}
