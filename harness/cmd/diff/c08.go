package main

import (
	"bytes"
	"io"
	"reflect"
	"strconv"
	"time"

	"github.com/bluenviron/gomavlib/v3"
	"github.com/bluenviron/gomavlib/v3/pkg/dialect"
	"github.com/bluenviron/gomavlib/v3/pkg/frame"
	"github.com/bluenviron/gomavlib/v3/pkg/message"

	"verifharness/hx"
	"verifharness/scn"
)

func init() { gens["C08"] = genC08 }

type nullRWC struct{ ch chan struct{} }

func (n *nullRWC) Read(p []byte) (int, error)  { <-n.ch; return 0, io.EOF }
func (n *nullRWC) Write(p []byte) (int, error) { return len(p), nil }
func (n *nullRWC) Close() error                { close(n.ch); return nil }

// hop reads one frame and writes it back unchanged; returns the impl text and the bytes written.
func hop(in []byte, rdrw *dialect.ReadWriter, key *frame.V2Key, wdrw *dialect.ReadWriter) (string, []byte, frame.Frame) {
	rd := &frame.Reader{ByteReader: bytes.NewReader(in), DialectRW: rdrw, InKey: key}
	rd.Initialize() //nolint:errcheck
	var fr frame.Frame
	var err error
	if hx.Safe(func() string { fr, err = rd.Read(); return "" }) == "panic" {
		return "PANIC", nil, nil
	}
	if err != nil {
		return hx.ErrClass(err), nil, nil
	}
	before := hx.Frame(fr)
	var out bytes.Buffer
	w := &frame.Writer{ByteWriter: &out, DialectRW: wdrw}
	w.Initialize() //nolint:errcheck
	res := hx.Safe(func() string {
		if err := w.Write(fr); err != nil {
			return "err"
		}
		return "ok " + hx.Hex(out.Bytes())
	})
	if res == "err" || res == "panic" {
		return "F(" + before + ") -> " + res, nil, fr
	}
	return "F(" + before + ") -> " + res, out.Bytes(), fr
}

// stringFieldOffsets returns (offset, length) of each string field in the wire order of the payload.
func hasString(m message.Message) bool {
	t := reflect.TypeOf(m).Elem()
	for i := 0; i < t.NumField(); i++ {
		if t.Field(i).Type.Kind() == reflect.String {
			return true
		}
	}
	return false
}

func genC08(o *hx.Out, tier string) {
	defer c08NodeForward(o)
	r := hx.NewRand(8)
	d := shipped("common")
	drw := defineDialect(o, "common", d)
	key := frame.NewV2Key([]byte("forwarding-key"))
	nmsg := 40
	if tier == "thorough" {
		nmsg = len(d.Messages)
	}
	perm := r.Perm(len(d.Messages))
	// messages with strings first: they have the richest non-canonical encodings
	var order []message.Message
	for _, i := range perm {
		if hasString(d.Messages[i]) {
			order = append(order, d.Messages[i])
		}
	}
	for _, i := range perm {
		if !hasString(d.Messages[i]) {
			order = append(order, d.Messages[i])
		}
	}
	for _, proto := range order[:nmsg] {
		mrw := drw.GetMessage(proto.GetID())
		for _, v2 := range []bool{true, false} {
			if !v2 && proto.GetID() > 255 {
				continue
			}
			for variant := 0; variant < 6; variant++ {
				msg := hx.RandMessage(r, proto, 2)
				full := mrw.Write(hx.RandMessage(r, proto, 1), v2).Payload // full size (all ones never truncates)
				payload := append([]byte(nil), mrw.Write(msg, v2).Payload...)
				class := "canonical"
				switch variant {
				case 1: // not zero-truncated
					if v2 {
						payload = append(payload, make([]byte, len(full)-len(payload))...)
						class = "untruncated"
					}
				case 2: // garbage after every NUL inside the payload (bytes after a string terminator)
					p2 := append([]byte(nil), payload...)
					p2 = append(p2, make([]byte, len(full)-len(p2))...)
					seenNul := false
					for i := range p2 {
						if seenNul && r.Intn(2) == 0 {
							p2[i] = byte(1 + r.Intn(255))
						}
						if p2[i] == 0 {
							seenNul = true
						}
					}
					payload = p2
					class = "garbage-after-nul"
				case 3: // unknown trailing extension bytes
					if v2 && len(full) < 250 {
						payload = append(payload, make([]byte, len(full)-len(payload))...)
						for k := 0; k < 1+r.Intn(5); k++ {
							payload = append(payload, byte(r.Intn(256)))
						}
						class = "trailing-bytes"
					}
				case 4: // random payload of the full size
					payload = make([]byte, len(full))
					r.Read(payload)
					class = "random-payload"
				case 5: // random payload with many zero bytes
					payload = make([]byte, len(full))
					for i := range payload {
						if r.Intn(3) == 0 {
							payload[i] = byte(r.Intn(256))
						}
					}
					class = "sparse-payload"
				}
				raw := &message.MessageRaw{ID: proto.GetID(), Payload: payload}
				signed := v2 && r.Intn(3) == 0
				var fr frame.Frame
				if v2 {
					f := &frame.V2Frame{SequenceNumber: byte(r.Intn(256)), SystemID: byte(r.Intn(256)), ComponentID: byte(r.Intn(256)),
						CompatibilityFlag: byte(r.Intn(256)), Message: raw}
					if signed {
						f.IncompatibilityFlag = 1
						f.SignatureLinkID = byte(r.Intn(256))
						f.SignatureTimestamp = r.Uint64() & (1<<48 - 1)
					}
					f.Checksum = f.GenerateChecksum(mrw.CRCExtra())
					if signed {
						f.Signature = f.GenerateSignature(key)
					}
					fr = f
				} else {
					f := &frame.V1Frame{SequenceNumber: byte(r.Intn(256)), SystemID: byte(r.Intn(256)), ComponentID: byte(r.Intn(256)), Message: raw}
					f.Checksum = f.GenerateChecksum(mrw.CRCExtra())
					fr = f
				}
				wire, err := writeFrame(nil, fr)
				if err != nil {
					continue
				}
				// dialect hops: 3 hops, each reads with the dialect and writes with the dialect
				cur := wire
				for h := 0; h < 3 && cur != nil; h++ {
					impl, next, _ := hop(cur, drw, nil, drw)
					o.Add("dialect-hop "+class, impl, "forward", "common", "-", "common", hx.Hex(cur))
					cur = next
				}
				// raw hops (no dialect): bytes identical
				cur = wire
				for h := 0; h < 2 && cur != nil; h++ {
					var k *frame.V2Key
					kt := "-"
					if signed && h == 0 {
						k = key
						kt = hx.Hex(key[:])
					}
					impl, next, _ := hop(cur, nil, k, nil)
					if next != nil && !bytes.Equal(next, cur) {
						impl += " BYTES-CHANGED"
					}
					o.Add("raw-hop "+class, impl, "forward", "-", kt, "-", hx.Hex(cur))
					cur = next
				}
			}
		}
	}
	// the largest frames (payload 253..255 bytes; signed v2 = 280 bytes on the wire) through raw hops
	for _, plen := range []int{253, 254, 255} {
		for variant := 0; variant < 3; variant++ {
			p := make([]byte, plen)
			r.Read(p)
			p[plen-1] |= 1
			raw := &message.MessageRaw{ID: uint32(1 + r.Intn(250)), Payload: p}
			var fr frame.Frame
			kt := "-"
			var k *frame.V2Key
			switch variant {
			case 0:
				fr = &frame.V1Frame{SequenceNumber: byte(r.Intn(256)), SystemID: byte(r.Intn(256)), ComponentID: byte(r.Intn(256)),
					Message: raw, Checksum: uint16(r.Intn(65536))}
			default:
				f := &frame.V2Frame{SequenceNumber: byte(r.Intn(256)), SystemID: byte(r.Intn(256)), ComponentID: byte(r.Intn(256)),
					Message: raw, Checksum: uint16(r.Intn(65536))}
				if variant == 2 {
					f.IncompatibilityFlag = 1
					f.SignatureLinkID = byte(r.Intn(256))
					f.SignatureTimestamp = r.Uint64() & (1<<48 - 1)
					f.Signature = f.GenerateSignature(key)
					k = key
					kt = hx.Hex(key[:])
				}
				fr = f
			}
			cur := manualWire(fr)
			for h := 0; h < 2 && cur != nil; h++ {
				impl, next, _ := hop(cur, nil, k, nil)
				if next != nil && !bytes.Equal(next, cur) {
					impl += " BYTES-CHANGED"
				}
				o.Add("raw-hop max-size", impl, "forward", "-", kt, "-", hx.Hex(cur))
				cur = next
			}
		}
	}
	// a router reads ahead: several frames are read from one transport before the first is written
	// out again; every frame must still go out byte for byte (no dialect: payloads stay raw)
	nst := 30
	if tier == "thorough" {
		nst = 600
	}
	for i := 0; i < nst; i++ {
		nfr := 2 + r.Intn(8)
		var wires [][]byte
		var stream []byte
		signedAny := false
		for j := 0; j < nfr; j++ {
			p := make([]byte, 1+r.Intn(250))
			r.Read(p)
			p[len(p)-1] |= 1
			raw := &message.MessageRaw{ID: uint32(1 + r.Intn(250)), Payload: p}
			var fr frame.Frame
			switch r.Intn(3) {
			case 0:
				fr = &frame.V1Frame{SequenceNumber: byte(j), SystemID: byte(r.Intn(256)), ComponentID: byte(r.Intn(256)), Message: raw, Checksum: uint16(r.Intn(65536))}
			case 1:
				fr = &frame.V2Frame{SequenceNumber: byte(j), SystemID: byte(r.Intn(256)), ComponentID: byte(r.Intn(256)), Message: raw, Checksum: uint16(r.Intn(65536))}
			default:
				f := &frame.V2Frame{SequenceNumber: byte(j), SystemID: byte(r.Intn(256)), ComponentID: byte(r.Intn(256)), Message: raw, Checksum: uint16(r.Intn(65536)),
					IncompatibilityFlag: 1, SignatureLinkID: byte(r.Intn(256)), SignatureTimestamp: uint64(1000000 + j)}
				f.Signature = f.GenerateSignature(key)
				fr = f
				signedAny = true
			}
			w := manualWire(fr)
			wires = append(wires, w)
			stream = append(stream, w...)
		}
		_ = signedAny
		rd := &frame.Reader{ByteReader: bytes.NewReader(stream)}
		rd.Initialize() //nolint:errcheck
		var got []frame.Frame
		verdict := "ok"
		for j := 0; j < nfr; j++ {
			fr, err := rd.Read()
			if err != nil {
				verdict = "READ-FAILED at frame " + strconv.Itoa(j) + ": " + err.Error()
				break
			}
			got = append(got, fr)
		}
		for j, fr := range got {
			var out bytes.Buffer
			w := &frame.Writer{ByteWriter: &out}
			w.Initialize() //nolint:errcheck
			if err := w.Write(fr); err != nil {
				verdict = "WRITE-FAILED at frame " + strconv.Itoa(j)
				break
			}
			if !bytes.Equal(out.Bytes(), wires[j]) && verdict == "ok" {
				verdict = "BYTES-CHANGED at frame " + strconv.Itoa(j) + " of " + strconv.Itoa(nfr) + ": got " + hx.Hex(out.Bytes()) + " want " + hx.Hex(wires[j])
			}
		}
		o.Add("read ahead, then forward", verdict, "expect", "ok", "stream of "+strconv.Itoa(nfr)+" frames, "+strconv.Itoa(len(stream))+" bytes")
	}
	// unknown ids through a dialect-configured router
	for i := 0; i < 60; i++ {
		fr := randFrame(r, i%2 == 0, i%4 == 0)
		raw := fr.GetMessage().(*message.MessageRaw)
		raw.ID = 40000 + uint32(r.Intn(100))
		if _, ok := fr.(*frame.V1Frame); ok {
			raw.ID = 250
		}
		wire, err := writeFrame(nil, fr)
		if err != nil {
			continue
		}
		impl, _, _ := hop(wire, drw, nil, drw)
		o.Add("unknown-id", impl, "forward", "common", "-", "common", hx.Hex(wire))
	}

	// FixFrame after an edit
	for _, withKey := range []bool{false, true} {
		rwc := &nullRWC{ch: make(chan struct{})}
		conf := gomavlib.NodeConf{Endpoints: []gomavlib.EndpointConf{gomavlib.EndpointCustom{ReadWriteCloser: rwc}},
			Dialect: d, OutVersion: gomavlib.V2, OutSystemID: 1, HeartbeatDisable: true}
		kt := "-"
		if withKey {
			conf.OutKey = key
			kt = hx.Hex(key[:])
		}
		node, err := gomavlib.NewNode(conf)
		if err != nil {
			panic(err)
		}
		nfix := 60
		if tier == "thorough" {
			nfix = 600
		}
		for i := 0; i < nfix; i++ {
			proto := d.Messages[r.Intn(len(d.Messages))]
			v2 := i%3 != 0
			if !v2 && proto.GetID() > 255 {
				continue
			}
			signed := v2 && i%2 == 0
			var k *frame.V2Key
			if signed {
				k = key
			}
			fr := validFrame(r, drw, hx.RandMessage(r, proto, 2), v2, k)
			wire, _ := writeFrame(drw, fr)
			_, _, got := hop(wire, drw, nil, drw)
			if got == nil {
				continue
			}
			// the application edits the decoded message
			edited := hx.RandMessage(r, proto, 2)
			switch f := got.(type) {
			case *frame.V1Frame:
				f.Message = edited
			case *frame.V2Frame:
				f.Message = edited
			}
			before := hx.Frame(got)
			impl := hx.Safe(func() string {
				if err := node.FixFrame(got); err != nil {
					return "err"
				}
				return "ok " + hx.Frame(got)
			})
			o.Add("fixframe", impl, "fixframe", "common", kt, before)
			// next hop validates: dialect, and the key when the frame carries the signed flag
			if out, err := writeFrame(drw, got); err == nil {
				var nk *frame.V2Key
				nkt := "-"
				if f2, ok := got.(*frame.V2Frame); ok && withKey && f2.IsSigned() {
					nk = key
					nkt = kt
				}
				impl2, _, _ := hop(out, drw, nk, drw)
				if len(impl2) < 2 || impl2[:2] != "F(" {
					impl2 += " NEXT-HOP-REFUSED"
				}
				o.Add("fixframe-next-hop", impl2, "forward", "common", nkt, "common", hx.Hex(out))
			}
		}
		node.Close()
	}
}

// c08NodeForward: a router built on a Node forwards what it receives and then goes on using the
// message it was handed (here: changes a field) while the destination link is still busy with an
// earlier write: what reaches the next hop is the frame as it was when it was forwarded, a valid
// frame that decodes to the received message.
func c08NodeForward(o *hx.Out) {
	d := shipped("common")
	drw := &dialect.ReadWriter{Dialect: d}
	drw.Initialize() //nolint:errcheck
	r := hx.NewRand(808)
	verdict := "ok"
	in, out := scn.NewPipe("in"), scn.NewPipe("out")
	node, err := gomavlib.NewNode(gomavlib.NodeConf{Endpoints: []gomavlib.EndpointConf{
		gomavlib.EndpointCustom{ReadWriteCloser: in}, gomavlib.EndpointCustom{ReadWriteCloser: out}},
		Dialect: d, OutVersion: gomavlib.V2, OutSystemID: 10, HeartbeatDisable: true})
	if err != nil {
		o.Add("node forwards, then reuses the message", "NODE-FAILED", "expect", "ok", "node-forward-reuse")
		return
	}
	var statustext message.Message
	for _, m := range d.Messages {
		if m.GetID() == 253 {
			statustext = m
		}
	}
	const n = 8
	var sentHex []string
	out.BlockWrites()
	done := make(chan struct{})
	go func() {
		defer close(done)
		got := 0
		for evt := range node.Events() {
			if fe, ok := evt.(*gomavlib.EventFrame); ok {
				held := fe.Message() // the decoded message the application was handed
				node.WriteFrameExcept(fe.Channel, fe.Frame) //nolint:errcheck
				// the application keeps using its message
				v := reflect.ValueOf(held).Elem()
				if f := v.FieldByName("Text"); f.IsValid() {
					f.SetString("overwritten by the application")
				}
				if f := v.FieldByName("Severity"); f.IsValid() {
					f.SetUint(7)
				}
				got++
				if got == 2*n {
					out.UnblockWrites()
				}
			}
		}
	}()
	// wait for both channels, then feed
	time.Sleep(200 * time.Millisecond)
	for i := 0; i < n; i++ {
		m := hx.RandMessage(r, statustext, 2)
		reflect.ValueOf(m).Elem().FieldByName("Text").SetString("frame " + strconv.Itoa(i))
		fr := validFrame(r, drw, m, true, nil)
		bs, _ := writeFrame(drw, fr)
		// every frame arrives twice, byte for byte (a sender repeating itself): the second copy is
		// forwarded as it arrived, whatever the application did to the message of the first
		sentHex = append(sentHex, hx.Value(canonMsg(drw, m)), hx.Value(canonMsg(drw, m)))
		in.Feed(bs)
		in.Feed(bs)
	}
	n2 := 2 * n
	okw := out.WaitWrites(func(ws [][]byte) bool { return len(ws) >= n2 })
	ws := out.Writes()
	if !okw || len(ws) != n2 {
		verdict = "FORWARDED " + strconv.Itoa(len(ws)) + " OF " + strconv.Itoa(n2)
	} else {
		for i, w := range ws {
			rd := &frame.Reader{ByteReader: bytes.NewReader(w), DialectRW: drw}
			rd.Initialize() //nolint:errcheck
			fr, err := rd.Read()
			if err != nil {
				verdict = "NEXT-HOP-REFUSES-FRAME-" + strconv.Itoa(i) + " " + err.Error()
				break
			}
			if hx.Value(fr.GetMessage()) != sentHex[i] {
				verdict = "NEXT-HOP-DECODES-ANOTHER-MESSAGE-AT-" + strconv.Itoa(i)
				break
			}
		}
	}
	node.Close()
	<-done
	o.Add("node forwards, then reuses the message", verdict, "expect", "ok", "node-forward-reuse")
}

func canonMsg(drw *dialect.ReadWriter, m message.Message) message.Message {
	mrw := drw.GetMessage(m.GetID())
	out, err := mrw.Read(mrw.Write(m, true), true)
	if err != nil {
		return m
	}
	return out
}
