package main

import (
	"fmt"
	"strings"
	"time"

	"github.com/bluenviron/gomavlib/v3/pkg/dialect"
	"github.com/bluenviron/gomavlib/v3/pkg/frame"
	"github.com/bluenviron/gomavlib/v3/pkg/message"
	"github.com/bluenviron/gomavlib/v3/pkg/streamwriter"

	"verifharness/hx"
)

var sigRef = time.Date(2015, 1, 1, 0, 0, 0, 0, time.UTC)

type wconf struct {
	v2    bool
	sys   byte
	comp  byte
	link  byte
	key   *frame.V2Key
	dname string
	drw   *dialect.ReadWriter
}

func (c wconf) fields() []string {
	key := "-"
	if c.key != nil {
		key = hx.Hex(c.key[:])
	}
	comp := c.comp
	if comp < 1 {
		comp = 1 // Initialize's default; the model's stream_write takes the effective id
	}
	return []string{b2s(c.v2), u(uint64(c.sys)), u(uint64(comp)), u(uint64(c.link)), key, c.dname}
}

func b2s(b bool) string {
	if b {
		return "1"
	}
	return "0"
}

// sigTimestamp extracts the 48-bit timestamp of a signed v2 frame.
func sigTimestamp(bs []byte) uint64 {
	if len(bs) < 13 {
		return 0
	}
	t := bs[len(bs)-12 : len(bs)-6]
	return uint64(t[0]) | uint64(t[1])<<8 | uint64(t[2])<<16 | uint64(t[3])<<24 | uint64(t[4])<<32 | uint64(t[5])<<40
}

type msgWriter interface{ Write(message.Message) error }
type fwAdapter struct{ w *frame.Writer }

func (a fwAdapter) Write(m message.Message) error { return a.w.WriteMessage(m) }

// runWrites performs a history of writes on streamwriter.Writer (or, when legacy, on the
// deprecated frame.Writer.WriteMessage) and renders outcomes and the op list for the model.
func runWrites(c wconf, msgs []message.Message, legacy bool) (impl string, ops string) {
	cw := &countWriter{}
	var w msgWriter
	if legacy {
		ver := frame.V1
		if c.v2 {
			ver = frame.V2
		}
		fw := &frame.Writer{ByteWriter: cw, DialectRW: c.drw, OutVersion: ver, OutSystemID: c.sys,
			OutComponentID: c.comp, OutSignatureLinkID: c.link, OutKey: c.key}
		if err := fw.Initialize(); err != nil {
			return "initerr", "-"
		}
		w = fwAdapter{fw}
	} else {
		fw := &frame.Writer{ByteWriter: cw, DialectRW: c.drw}
		if err := fw.Initialize(); err != nil {
			return "initerr", "-"
		}
		ver := streamwriter.V1
		if c.v2 {
			ver = streamwriter.V2
		}
		sw := &streamwriter.Writer{FrameWriter: fw, Version: ver, SystemID: c.sys, ComponentID: c.comp,
			SignatureLinkID: c.link, Key: c.key}
		if err := sw.Initialize(); err != nil {
			return "initerr", "-"
		}
		w = sw
	}
	var outs, opl []string
	for _, m := range msgs {
		mtxt := hx.Msg(m)
		cw.data = nil
		cw.calls = 0
		before := uint64(time.Since(sigRef)) / 10000
		res := hx.Safe(func() string {
			if err := w.Write(m); err != nil {
				if cw.calls != 0 {
					return "err-after-write"
				}
				return "err"
			}
			if cw.calls != 1 {
				return fmt.Sprintf("ok-in-%d-writes", cw.calls)
			}
			return "ok " + hx.Hex(cw.data)
		})
		after := uint64(time.Since(sigRef)) / 10000
		now := uint64(0)
		if strings.HasPrefix(res, "ok ") && c.key != nil && c.v2 {
			now = sigTimestamp(cw.data)
			if now < before&(1<<48-1) || now > after&(1<<48-1) {
				res = fmt.Sprintf("timestamp %d outside clock bracket [%d,%d]", now, before, after)
			}
		}
		outs = append(outs, res)
		opl = append(opl, mtxt+"@"+u(now))
	}
	return strings.Join(outs, ";"), strings.Join(opl, " ")
}
