package main

import "github.com/bluenviron/gomavlib/v3/pkg/message"

// A fixed library of user-defined message structs with unusual shapes.
type (
	UEnum8  uint64
	UEnum32 uint64
	UBad    uint32
)

type MessageUserA struct { // mixed sizes, declaration order among equals
	A uint8
	B uint64
	C uint16
	D float32
	E int8
	F float64
	G int16
	H uint32
	I int64
	J int32
}
type MessageUserB struct { // arrays sort by element size, not by total size
	Small [30]uint8
	Big   [2]uint64
	Mid   [5]uint16
	One   float32
}
type MessageUserC struct { // strings and plain char
	Name  string `mavlen:"16"`
	Ch    string
	Val   uint16
	Label string `mavlen:"1"`
}
type MessageUserD struct { // extensions after base fields, extensions are not sorted
	X    uint8
	Y    uint32
	E1   uint8    `mavext:"true"`
	E2   uint64   `mavext:"true"`
	E3   [3]int16 `mavext:"true"`
	EStr string   `mavext:"true" mavlen:"5"`
}
type MessageUserE struct { // enums at their wire width, enum arrays, renamed fields
	Mode   UEnum8    `mavenum:"uint8"`
	Flags  UEnum32   `mavenum:"uint32"`
	Modes  [4]UEnum8 `mavenum:"uint8"`
	Wide   UEnum32   `mavenum:"uint64"`
	Signed UEnum32   `mavenum:"int32"`
	Tiny   UEnum8    `mavenum:"int8"`
	Half   UEnum8    `mavenum:"uint16"`
	XYZabc uint8     `mavname:"xYZ_abc"`
}
type MessageUserFieldNamesABC struct { // names with runs of capitals and digits
	IDValue  uint8
	X2Y      uint16
	ABCdEF   uint32
	Param1   float32
	Lat7Long int32
}
type MessageUserG struct { // 64-bit and float arrays
	Q   [4]float32
	I64 [3]int64
	D   [2]float64
	U8  [7]uint8
	I8  [3]int8
}
type MessageUserH struct{} // no fields
type MessageUserI struct { // only extensions
	E uint16 `mavext:"true"`
}
type MessageUserMax struct { // exactly 255 bytes
	A [31]uint64
	B [7]uint8
}
type MessageX struct { // one-letter name
	V uint8
}
type MessageUserBadEnumKind struct {
	M UBad `mavenum:"uint8"`
}
type MessageUserBadEnumType struct {
	M UEnum8 `mavenum:"float"`
}
type MessageUserBadEnumType2 struct {
	M UEnum8 `mavenum:"int16"`
}
type MessageUserBadType struct {
	M bool
}
type MessageUserBadNamed struct {
	M UBad
}
type MessageUserBadLen struct {
	S string `mavlen:"x12"`
}
type UserNoPrefix struct {
	V uint8
}

type MessageUserOne struct { // one-element arrays and a one-character string
	V [1]uint16
	W [1]uint8
	S string     `mavlen:"1"`
	F [1]float32 `mavext:"true"`
}
type MessageUserOneB struct { // the same fields without the arrays: a different CRC_EXTRA
	V uint16
	W uint8
	S string
	F float32 `mavext:"true"`
}

// a second definition of message 50001 (an application that redefines a message between two nodes)
type MessageUserARedefined struct {
	A uint16
	B uint8
}

func (*MessageUserARedefined) GetID() uint32 { return 50001 }

// small messages at the id boundaries of the two frame versions
type MessageUserID254 struct{ V uint8 }
type MessageUserID255 struct{ V uint16 }
type MessageUserID256 struct{ V uint8 }
type MessageUserID65535 struct{ V uint32 }
type MessageUserID65536 struct{ V uint8 }
type MessageUserIDMax struct{ V uint8 }

func (*MessageUserID254) GetID() uint32         { return 254 }
func (*MessageUserID255) GetID() uint32         { return 255 }
func (*MessageUserID256) GetID() uint32         { return 256 }
func (*MessageUserID65535) GetID() uint32       { return 65535 }
func (*MessageUserID65536) GetID() uint32       { return 65536 }
func (*MessageUserIDMax) GetID() uint32         { return 16777215 }
func (*MessageUserOne) GetID() uint32           { return 50021 }
func (*MessageUserOneB) GetID() uint32          { return 50022 }
func (*MessageUserA) GetID() uint32             { return 50001 }
func (*MessageUserB) GetID() uint32             { return 50002 }
func (*MessageUserC) GetID() uint32             { return 50003 }
func (*MessageUserD) GetID() uint32             { return 50004 }
func (*MessageUserE) GetID() uint32             { return 50005 }
func (*MessageUserFieldNamesABC) GetID() uint32 { return 50006 }
func (*MessageUserG) GetID() uint32             { return 50007 }
func (*MessageUserH) GetID() uint32             { return 50008 }
func (*MessageUserI) GetID() uint32             { return 50009 }
func (*MessageUserMax) GetID() uint32           { return 50010 }
func (*MessageX) GetID() uint32                 { return 50011 }
func (*MessageUserBadEnumKind) GetID() uint32   { return 50012 }
func (*MessageUserBadEnumType) GetID() uint32   { return 50013 }
func (*MessageUserBadEnumType2) GetID() uint32  { return 50014 }
func (*MessageUserBadType) GetID() uint32       { return 50015 }
func (*MessageUserBadNamed) GetID() uint32      { return 50016 }
func (*MessageUserBadLen) GetID() uint32        { return 50017 }
func (*UserNoPrefix) GetID() uint32             { return 50018 }

var userStructs = []message.Message{
	&MessageUserA{}, &MessageUserB{}, &MessageUserC{}, &MessageUserD{}, &MessageUserE{},
	&MessageUserFieldNamesABC{}, &MessageUserG{}, &MessageUserH{}, &MessageUserI{}, &MessageUserMax{},
	&MessageX{}, &MessageUserBadEnumKind{}, &MessageUserBadEnumType{}, &MessageUserBadEnumType2{},
	&MessageUserBadType{}, &MessageUserBadNamed{}, &MessageUserBadLen{}, &UserNoPrefix{},
}

var userOne = []message.Message{&MessageUserOne{}, &MessageUserOneB{}, &MessageUserID254{}, &MessageUserID255{}, &MessageUserID256{},
	&MessageUserID65535{}, &MessageUserID65536{}, &MessageUserIDMax{}}
