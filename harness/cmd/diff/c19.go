package main

import (
	"fmt"
	"math/rand"
	"os"
	"os/exec"
	"path/filepath"
	"strconv"
	"strings"

	"verifharness/hx"
)

func init() { gens["C19"] = genC19 }

type enumConst struct {
	Name  string
	Value uint64
}
type enumEntry struct {
	Pkg, Name  string
	Bitmask    bool
	Bound      int
	Marshal    func(uint64) (string, error)
	MarshalRaw func(uint64) ([]byte, error) // the slice MarshalText returned, not a copy
	Unmarshal  func(string) (uint64, error)
	Consts     []enumConst
	Labels     []enumConst // label text -> value it is the label of
	Values     []enumConst // text -> value
}

// filled by zz_enums_gen.go (regenerated from /repo by harness/cmd/extract on every run)
var enumRegistry []enumEntry

// genC19Generated: the same round trip on enums of a freshly GENERATED dialect (the template of
// pkg/conversion, not the checked-in files): a package is generated from XML by the real
// generator, compiled with a probe, and every value is parsed into a fresh variable and into a
// variable that already holds other bits.
func genC19Generated(o *hx.Out, r *rand.Rand) {
	exe, _ := os.Executable()
	hroot := filepath.Dir(filepath.Dir(exe))
	gdir := filepath.Join(hroot, "gen19")
	os.RemoveAll(gdir)
	os.MkdirAll(gdir, 0o755) //nolint:errcheck
	g := &c18Gen{r: r, usedMsg: map[string]bool{}, usedEnum: map[string]bool{}, usedEnt: map[string]bool{}, nextID: 1}
	f := xFile{addr: "c19_Gen.xml", version: "3"}
	for i := 0; i < 6; i++ {
		e := g.enum()
		e.bitmask = i%2 == 0
		if i == 4 { // a flag above the number of entries
			e.entries = append(e.entries, xEntry{e.name + "_HIGH", "2**40"})
		}
		f.enums = append(f.enums, e)
	}
	f.msgs = []xMsg{{name: "C19_PROBE", id: 1, fields: []xField{{typ: "uint8_t", name: "x"}}}}
	// an included definition whose enums (one bitmask, one ordinary) the including definition
	// extends with further entries: the generated type holds the entries of both, in that order
	base := xFile{addr: "c19_Base.xml", version: "3",
		msgs: []xMsg{{name: "C19_BASE_PROBE", id: 2, fields: []xField{{typ: "uint8_t", name: "y"}}}},
		enums: []xEnum{
			{name: "EBASE_FLAGS", bitmask: true, entries: []xEntry{{"EBASE_FLAGS_A", "1"}, {"EBASE_FLAGS_B", "0x2"}, {"EBASE_FLAGS_C", "2**2"}}},
			{name: "EBASE_KIND", entries: []xEntry{{"EBASE_KIND_ZERO", "0"}, {"EBASE_KIND_ONE", "1"}, {"EBASE_KIND_TWO", "2"}}},
			// decimal values written with leading zeros (they are decimal: 010 is ten, 016 sixteen)
			{name: "EPADDED_KIND", entries: []xEntry{{"EPADDED_KIND_TEN", "010"}, {"EPADDED_KIND_EIGHT", "8"}, {"EPADDED_KIND_HUNDRED", "0100"}, {"EPADDED_KIND_NINE", "09"}}},
			{name: "EPADDED_FLAGS", bitmask: true, entries: []xEntry{{"EPADDED_FLAGS_A", "01"}, {"EPADDED_FLAGS_B", "02"}, {"EPADDED_FLAGS_E", "016"}, {"EPADDED_FLAGS_F", "032"}}},
		}}
	ext := []xEnum{
		{name: "EBASE_FLAGS", bitmask: true, entries: []xEntry{{"EBASE_FLAGS_D", "8"}, {"EBASE_FLAGS_HIGH", "2**33"}}},
		{name: "EBASE_KIND", entries: []xEntry{{"EBASE_KIND_TEN", "10"}, {"EBASE_KIND_BIG", "5000000000"}}},
	}
	f.includes = []string{base.addr}
	own := len(f.enums)
	f.enums = append(f.enums, ext...)
	os.WriteFile(filepath.Join(gdir, base.addr), []byte(xmlOf(base)), 0o644) //nolint:errcheck
	os.WriteFile(filepath.Join(gdir, f.addr), []byte(xmlOf(f)), 0o644)       //nolint:errcheck
	f.enums = f.enums[:own]
	for i, e := range ext {
		e.entries = append(append([]xEntry(nil), base.enums[i].entries...), e.entries...)
		f.enums = append(f.enums, e)
	}
	f.enums = append(f.enums, base.enums[len(ext):]...) // the enums of the included definition that are not extended
	if err := convertIn(gdir, f.addr); err != nil {
		o.Add("generated enums", "GENERATOR-FAILED "+err.Error(), "expect", "ok", "generated enums")
		return
	}
	pkg := pkgNameOf(f.addr)
	var pb strings.Builder
	pb.WriteString("package main\n\nimport (\n\t\"fmt\"\n\t" + pkg + " \"verifharness/gen19/" + pkg + "\"\n)\n\nfunc main() {\n")
	type probeCase struct {
		key string
		v   uint64
	}
	var cases []probeCase
	for _, e := range f.enums {
		key := "gen." + e.name
		var ls, vs []string
		var vals []uint64
		for _, en := range e.entries {
			// the value as the model of the generator reads it (C18); here: as written by enumValue
			v := c19ParseValue(en.value)
			ls = append(ls, u(v)+"="+hx.HexS(en.name))
			vs = append(vs, hx.HexS(en.name)+"="+u(v))
			vals = append(vals, v)
		}
		o.Add("edef", "ok", "edef", key, b2s(e.bitmask), "64", strings.Join(ls, ","), strings.Join(vs, ","))
		try := append([]uint64{0}, vals...)
		if e.bitmask {
			var all uint64
			for _, v := range vals {
				if v != 0 && v&(v-1) == 0 {
					all |= v
				}
			}
			try = append(try, all)
			for k := 0; k < 4; k++ {
				var c uint64
				for _, v := range vals {
					if v != 0 && v&(v-1) == 0 && r.Intn(2) == 0 {
						c |= v
					}
				}
				try = append(try, c)
			}
		} else {
			try = append(try, 12345678901234567, 1<<63, 1<<64-1)
		}
		for _, v := range try {
			cases = append(cases, probeCase{key, v})
			fmt.Fprintf(&pb, "\t{\n\t\tv := %s.%s(%d)\n\t\ttxt, _ := v.MarshalText()\n\t\tvar fresh %s.%s\n\t\terr1 := fresh.UnmarshalText(txt)\n\t\treused := %s.%s(0xAAAAAAAAAAAAAAAA)\n\t\terr2 := reused.UnmarshalText(txt)\n\t\tfmt.Printf(\"%%x %%d %%v %%d %%v\\n\", txt, uint64(fresh), err1 == nil, uint64(reused), err2 == nil)\n\t}\n",
				pkg, e.name, v, pkg, e.name, pkg, e.name)
		}
	}
	pb.WriteString("}\n")
	os.MkdirAll(filepath.Join(gdir, "probe"), 0o755)                                  //nolint:errcheck
	os.WriteFile(filepath.Join(gdir, "probe", "main.go"), []byte(pb.String()), 0o644) //nolint:errcheck
	cmd := exec.Command("go", "build", "-tags", "verif", "-o", filepath.Join(gdir, "probe.bin"), "./gen19/probe")
	cmd.Dir = hroot
	bout, berr := cmd.CombinedOutput()
	var lines []string
	fail := ""
	if berr != nil {
		fail = "BUILD-FAILED " + strings.Join(strings.Fields(string(bout)), " ")
	} else {
		out, err := exec.Command(filepath.Join(gdir, "probe.bin")).CombinedOutput()
		if err != nil {
			fail = "PROBE-FAILED " + strings.Join(strings.Fields(string(out)), " ")
		}
		lines = strings.Split(strings.TrimSpace(string(out)), "\n")
	}
	os.Remove(filepath.Join(gdir, "probe.bin"))
	for i, c := range cases {
		impl := fail
		if impl == "" {
			impl = "MISSING"
			if i < len(lines) {
				fl := strings.Fields(lines[i])
				if len(fl) == 5 {
					txt := fl[0]
					if txt == "" {
						txt = "-"
					}
					switch {
					case fl[2] != "true" || fl[4] != "true":
						impl = txt + " -> err"
					case fl[1] != fl[3]:
						impl = txt + " -> " + fl[1] + " BUT-INTO-A-USED-VARIABLE " + fl[3]
					default:
						impl = txt + " -> " + fl[1]
					}
				} else if len(fl) == 4 { // empty text
					impl = "- -> err"
				}
			}
		}
		if len(impl) > 1500 {
			impl = impl[:1500]
		}
		o.Add("generated enum", impl, "ert", c.key, u(c.v))
	}
}

// c19ParseValue reads the value syntaxes the harness itself writes (decimal, 0x, 0b, 2**k).
func c19ParseValue(s string) uint64 {
	switch {
	case strings.HasPrefix(s, "0x"):
		v, _ := strconv.ParseUint(s[2:], 16, 64)
		return v
	case strings.HasPrefix(s, "0b"):
		v, _ := strconv.ParseUint(s[2:], 2, 64)
		return v
	case strings.HasPrefix(s, "2**"):
		k, _ := strconv.Atoi(s[3:])
		return 1 << uint(k)
	}
	v, _ := strconv.ParseUint(s, 10, 64)
	return v
}

func genC19(o *hx.Out, tier string) {
	r := hx.NewRand(19)
	defer genC19Generated(o, hx.NewRand(1919))
	if len(enumRegistry) == 0 {
		panic("enum registry is empty: harness/cmd/extract did not generate zz_enums_gen.go")
	}
	for _, e := range enumRegistry {
		e := e // closures rendered later keep this entry
		key := e.Pkg + "." + e.Name
		var ls, vs []string
		for _, l := range e.Labels {
			ls = append(ls, u(l.Value)+"="+hx.HexS(l.Name))
		}
		for _, v := range e.Values {
			vs = append(vs, hx.HexS(v.Name)+"="+u(v.Value))
		}
		lst, vst := "-", "-"
		if len(ls) > 0 {
			lst = strings.Join(ls, ",")
		}
		if len(vs) > 0 {
			vst = strings.Join(vs, ",")
		}
		o.Add("edef", "ok", "edef", key, b2s(e.Bitmask), strconv.Itoa(e.Bound), lst, vst)
		// the text of the previous value, as the slice MarshalText returned: it must still read the
		// same after the next value was rendered (a caller may keep it)
		var heldRaw []byte
		heldTxt := ""
		rt := func(class string, v uint64) {
			impl := hx.Safe(func() string {
				txt, err := e.Marshal(v)
				if err != nil {
					return "marshal-err"
				}
				if e.MarshalRaw != nil {
					if heldRaw != nil && string(heldRaw) != heldTxt {
						bad := "TEXT-OF-AN-EARLIER-CALL-CHANGED " + hx.HexS(heldTxt) + " became " + hx.HexS(string(heldRaw))
						heldRaw = nil
						return bad
					}
					if raw, err2 := e.MarshalRaw(v); err2 == nil {
						heldRaw, heldTxt = raw, string(raw)
					}
				}
				back, err := e.Unmarshal(txt)
				if err != nil {
					return hx.HexS(txt) + " -> err"
				}
				return hx.HexS(txt) + " -> " + u(back)
			})
			o.Add(class, impl, "ert", key, u(v))
			// and once more with the slice MarshalText returned kept and parsed only later
			if e.MarshalRaw != nil && strings.Contains(impl, " -> ") && !strings.Contains(impl, "CHANGED") {
				if raw, err := e.MarshalRaw(v); err == nil {
					o.AddLater(class+", text kept", func() string {
						return hx.Safe(func() string {
							txt := string(raw)
							back, err := e.Unmarshal(txt)
							if err != nil {
								return hx.HexS(txt) + " -> err"
							}
							return hx.HexS(txt) + " -> " + u(back)
						})
					}, "ert", key, u(v))
				}
			}
		}
		rt("zero", 0)
		var flags []uint64
		for _, c := range e.Consts {
			rt("constant", c.Value)
			if c.Value != 0 && c.Value&(c.Value-1) == 0 {
				flags = append(flags, c.Value)
			}
		}
		nrand := 6
		if tier == "thorough" {
			nrand = 60
		}
		if e.Bitmask {
			for k := 0; k < nrand && len(flags) > 0; k++ {
				var v uint64
				for _, f := range flags {
					if r.Intn(2) == 0 {
						v |= f
					}
				}
				rt("flag-combination", v)
			}
			var all uint64
			for _, f := range flags {
				all |= f
			}
			rt("all-flags", all)
		} else {
			for k := 0; k < nrand; k++ {
				rt("unnamed-value", hx.RandU64(r))
			}
			for _, v := range []uint64{1<<63 - 1, 1 << 63, 1<<64 - 1, 1<<63 + 1} {
				rt("int64-boundary", v)
			}
		}
		// parsing rejects garbage, accepts names and numbers
		texts := []string{"", " ", "x", "NOT_A_LABEL", "12x", "0x10", "+5", "-1", "18446744073709551615", "9223372036854775808",
			"-9223372036854775808", " | ", "1 | 2", "1 |2"}
		if len(e.Consts) > 0 {
			n := e.Consts[r.Intn(len(e.Consts))].Name
			texts = append(texts, n, strings.ToLower(n), n+" ", n+" | "+n, n+" | 4", n+" | nope", n+" | ", " | "+n, n+" |", "4 | ", n+" |  | "+n)
		}
		for _, t := range texts {
			impl := hx.Safe(func() string {
				v, err := e.Unmarshal(t)
				if err != nil {
					return "err"
				}
				return "ok " + u(v)
			})
			o.Add("parse", impl, "eparse", key, hx.HexS(t))
		}
	}
	_ = fmt.Sprint
}
