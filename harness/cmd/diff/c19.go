package main

import (
	"fmt"
	"strconv"
	"strings"

	"verifharness/hx"
)

func init() { gens["C19"] = genC19 }

type enumConst struct {
	Name  string
	Value uint64
}
type enumEntry struct {
	Pkg, Name string
	Bitmask   bool
	Bound     int
	Marshal   func(uint64) (string, error)
	Unmarshal func(string) (uint64, error)
	Consts    []enumConst
	Labels    []enumConst // label text -> value it is the label of
	Values    []enumConst // text -> value
}

// filled by zz_enums_gen.go (regenerated from /repo by harness/cmd/extract on every run)
var enumRegistry []enumEntry

func genC19(o *hx.Out, tier string) {
	r := hx.NewRand(19)
	if len(enumRegistry) == 0 {
		panic("enum registry is empty: harness/cmd/extract did not generate zz_enums_gen.go")
	}
	for _, e := range enumRegistry {
		key := e.Pkg + "." + e.Name
		var ls, vs []string
		for _, l := range e.Labels {
			ls = append(ls, u(l.Value)+"="+hx.HexS(l.Name))
		}
		for _, v := range e.Values {
			vs = append(vs, hx.HexS(v.Name)+"="+u(v.Value))
		}
		lst, vst := "-", "-"
		if len(ls) > 0 {
			lst = strings.Join(ls, ",")
		}
		if len(vs) > 0 {
			vst = strings.Join(vs, ",")
		}
		o.Add("edef", "ok", "edef", key, b2s(e.Bitmask), strconv.Itoa(e.Bound), lst, vst)
		rt := func(class string, v uint64) {
			impl := hx.Safe(func() string {
				txt, err := e.Marshal(v)
				if err != nil {
					return "marshal-err"
				}
				back, err := e.Unmarshal(txt)
				if err != nil {
					return hx.HexS(txt) + " -> err"
				}
				return hx.HexS(txt) + " -> " + u(back)
			})
			o.Add(class, impl, "ert", key, u(v))
		}
		rt("zero", 0)
		var flags []uint64
		for _, c := range e.Consts {
			rt("constant", c.Value)
			if c.Value != 0 && c.Value&(c.Value-1) == 0 {
				flags = append(flags, c.Value)
			}
		}
		nrand := 6
		if tier == "thorough" {
			nrand = 60
		}
		if e.Bitmask {
			for k := 0; k < nrand && len(flags) > 0; k++ {
				var v uint64
				for _, f := range flags {
					if r.Intn(2) == 0 {
						v |= f
					}
				}
				rt("flag-combination", v)
			}
			var all uint64
			for _, f := range flags {
				all |= f
			}
			rt("all-flags", all)
		} else {
			for k := 0; k < nrand; k++ {
				rt("unnamed-value", hx.RandU64(r))
			}
			for _, v := range []uint64{1<<63 - 1, 1 << 63, 1<<64 - 1, 1<<63 + 1} {
				rt("int64-boundary", v)
			}
		}
		// parsing rejects garbage, accepts names and numbers
		texts := []string{"", " ", "x", "NOT_A_LABEL", "12x", "0x10", "+5", "-1", "18446744073709551615", "9223372036854775808",
			"-9223372036854775808", " | ", "1 | 2", "1 |2"}
		if len(e.Consts) > 0 {
			n := e.Consts[r.Intn(len(e.Consts))].Name
			texts = append(texts, n, strings.ToLower(n), n+" ", n+" | "+n, n+" | 4", n+" | nope", n+" | ", " | "+n, n+" |", "4 | ", n+" |  | "+n)
		}
		for _, t := range texts {
			impl := hx.Safe(func() string {
				v, err := e.Unmarshal(t)
				if err != nil {
					return "err"
				}
				return "ok " + u(v)
			})
			o.Add("parse", impl, "eparse", key, hx.HexS(t))
		}
	}
	_ = fmt.Sprint
}
