package main

import (
	"github.com/bluenviron/gomavlib/v3/pkg/frame"
	"github.com/bluenviron/gomavlib/v3/pkg/message"

	"verifharness/hx"
)

func init() { gens["C07"] = genC07 }

var tsAlphabet = []uint64{0, 1, 5, 999999, 1000000, 1000001, 2000000, 2000001, 1999999, 1 << 47,
	1<<48 - 1000001, 1<<48 - 1000000, 1<<48 - 1}

func signedWithTs(key *frame.V2Key, seq byte, ts uint64) []byte {
	return signedFrom(key, seq, ts, 7, 9, 3)
}

func signedFrom(key *frame.V2Key, seq byte, ts uint64, sys, comp, link byte) []byte {
	return signedFromID(key, seq, ts, sys, comp, link, 300)
}

func signedFromID(key *frame.V2Key, seq byte, ts uint64, sys, comp, link byte, id uint32) []byte {
	f := &frame.V2Frame{IncompatibilityFlag: 1, SequenceNumber: seq, SystemID: sys, ComponentID: comp,
		Message: &message.MessageRaw{ID: id, Payload: []byte{seq}}, Checksum: 0x1234,
		SignatureLinkID: link, SignatureTimestamp: ts}
	f.Signature = f.GenerateSignature(key)
	bs, _ := writeFrame(nil, f)
	return bs
}

func genC07(o *hx.Out, tier string) {
	r := hx.NewRand(7)
	key := frame.NewV2Key([]byte("0123456789abcdef0123456789abcdef"))
	run := func(class string, seq []uint64) {
		var all []byte
		for i, ts := range seq {
			all = append(all, signedWithTs(key, byte(i), ts)...)
		}
		cs := one(all)
		o.AddLater(class, hx.ReadAllLater(cs, nil, key, nil), "fread", "-", hx.Hex(key[:]), hx.ChunksText(cs))
	}
	// the same window when the reader also has a dialect that does not contain the message the frames
	// carry (they are delivered undecoded): key + restricted dialect
	md := shipped("minimal")
	mdrw := defineDialect(o, "minimal", md)
	runD := func(class string, seq []uint64) {
		var all []byte
		for i, ts := range seq {
			all = append(all, signedFromID(key, byte(i), ts, 7, 9, 3, 4242)...) // 4242 is not a message of minimal
		}
		cs := one(all)
		o.AddLater(class, hx.ReadAllLater(cs, mdrw, key, nil), "fread", "minimal", hx.Hex(key[:]), hx.ChunksText(cs))
	}
	for _, a := range tsAlphabet {
		for _, b := range tsAlphabet {
			runD("key and a dialect without the message", []uint64{a, b})
		}
	}
	depth := 3
	if tier == "thorough" {
		depth = 4
	}
	// exhaustive over the boundary alphabet up to the depth bound
	var rec func(prefix []uint64)
	rec = func(prefix []uint64) {
		if len(prefix) > 0 {
			run("alphabet-exhaustive", prefix)
		}
		if len(prefix) == depth {
			return
		}
		for _, t := range tsAlphabet {
			rec(append(append([]uint64(nil), prefix...), t))
		}
	}
	rec(nil)
	// random walks beyond the bound
	nw := 300
	if tier == "thorough" {
		nw = 5000
	}
	for i := 0; i < nw; i++ {
		n := 4 + r.Intn(12)
		seq := make([]uint64, n)
		cur := tsAlphabet[r.Intn(len(tsAlphabet))]
		for j := range seq {
			switch r.Intn(5) {
			case 0:
				cur = tsAlphabet[r.Intn(len(tsAlphabet))]
			case 1:
				cur = (cur + uint64(r.Intn(3000000))) & (1<<48 - 1)
			case 2:
				d := uint64(r.Intn(3000000))
				if d > cur {
					d = cur
				}
				cur -= d
			case 3:
				cur = (cur + 1000000 + uint64(r.Intn(3)) - 1) & (1<<48 - 1)
			default:
				if cur >= 1000001 {
					cur -= 1000000 + uint64(r.Intn(3)) - 1
				}
			}
			seq[j] = cur
		}
		run("random-walk", seq)
	}
	// the same reader hears several senders (system, component and link ids differ): it remembers ONE
	// newest timestamp, whoever sent it
	senders := [][3]byte{{7, 9, 3}, {8, 9, 3}, {7, 1, 3}, {7, 9, 4}, {255, 255, 255}, {0, 0, 0}}
	runFrom := func(class string, seq []uint64, who []int) {
		var all []byte
		for i, ts := range seq {
			sd := senders[who[i]]
			all = append(all, signedFrom(key, byte(i), ts, sd[0], sd[1], sd[2])...)
		}
		cs := one(all)
		o.AddLater(class, hx.ReadAllLater(cs, nil, key, nil), "fread", "-", hx.Hex(key[:]), hx.ChunksText(cs))
	}
	for _, a := range tsAlphabet {
		for _, b := range tsAlphabet {
			for w := 1; w < 4; w++ {
				runFrom("two-senders", []uint64{a, b}, []int{0, w})
			}
		}
	}
	ns := 150
	if tier == "thorough" {
		ns = 3000
	}
	for i := 0; i < ns; i++ {
		n := 3 + r.Intn(8)
		seq := make([]uint64, n)
		who := make([]int, n)
		cur := uint64(r.Intn(5000000))
		for j := range seq {
			switch r.Intn(4) {
			case 0:
				cur += uint64(r.Intn(3000000))
			case 1:
				d := uint64(r.Intn(3000000))
				if d > cur {
					d = cur
				}
				cur -= d
			case 2:
				cur = tsAlphabet[r.Intn(len(tsAlphabet))]
			}
			seq[j] = cur
			who[j] = r.Intn(len(senders))
		}
		runFrom("several-senders", seq, who)
	}
	// forged frames (signed with another key, often dated far ahead) interleaved with genuine ones:
	// only authenticated frames may move the window
	other := frame.NewV2Key([]byte("another key, not the link's"))
	nf := 200
	if tier == "thorough" {
		nf = 3000
	}
	for i := 0; i < nf; i++ {
		n := 3 + r.Intn(8)
		var all []byte
		cur := uint64(1000000 + r.Intn(3000000))
		for j := 0; j < n; j++ {
			if r.Intn(3) == 0 {
				ts := cur + uint64(r.Intn(1<<30))
				if r.Intn(2) == 0 {
					ts = 1<<48 - 1 - uint64(r.Intn(1000))
				}
				all = append(all, signedWithTs(other, byte(j), ts)...)
				continue
			}
			switch r.Intn(3) {
			case 0:
				cur += uint64(r.Intn(2000000))
			case 1:
				if cur > 900000 {
					cur -= uint64(r.Intn(900000))
				}
			}
			all = append(all, signedWithTs(key, byte(j), cur)...)
		}
		cs := one(all)
		o.AddLater("forged-interleaved", hx.ReadAllLater(cs, nil, key, nil), "fread", "-", hx.Hex(key[:]), hx.ChunksText(cs))
	}
	// outgoing timestamps: bracketed by the clock and non-decreasing (checked inside runWrites)
	d := shipped("minimal")
	drw := defineDialect(o, "minimal", d)
	for i := 0; i < 20; i++ {
		c := wconf{v2: true, sys: 1, comp: 1, link: byte(i), key: key, dname: "minimal", drw: drw}
		var msgs []message.Message
		for j := 0; j < 20; j++ {
			msgs = append(msgs, hx.RandMessage(r, d.Messages[0], 2))
		}
		impl, ops := runWrites(c, msgs, i%2 == 0)
		o.Add("outgoing-timestamps", impl, append(append([]string{"swrite"}, c.fields()...), ops)...)
		o.Add("outgoing-monotone", "mono", "tsmono", ops)
	}
}
