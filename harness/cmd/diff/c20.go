package main

import (
	"bytes"
	"errors"
	"fmt"
	"math/rand"
	"strconv"
	"strings"
	"time"

	"github.com/bluenviron/gomavlib/v3/pkg/dialect"
	"github.com/bluenviron/gomavlib/v3/pkg/frame"
	"github.com/bluenviron/gomavlib/v3/pkg/message"
	"github.com/bluenviron/gomavlib/v3/pkg/tlog"

	"verifharness/hx"
)

func init() { gens["C20"] = genC20 }

// genC20Long: logs several times longer than the reader's 4096-byte buffer, read back whole and in
// pieces handed over by a transport that returns short reads.
func genC20Long(o *hx.Out, r *rand.Rand, tier string) {
	nlong := 2
	if tier == "thorough" {
		nlong = 12
	}
	for i := 0; i < nlong; i++ {
		n := 350 + r.Intn(300)
		bw := &budgetWriter{budget: 1 << 30}
		w := &tlog.Writer{ByteWriter: bw}
		w.Initialize() //nolint:errcheck
		for j := 0; j < n; j++ {
			fr := randFrame(r, r.Intn(2) == 0, r.Intn(4) == 0)
			raw := fr.GetMessage().(*message.MessageRaw)
			if len(raw.Payload) > 30 {
				raw.Payload = raw.Payload[:r.Intn(30)]
			}
			if j%40 == 7 {
				// the largest entry: signed v2 frame with a 255-byte payload (8 + 280 bytes)
				p := make([]byte, 255)
				r.Read(p)
				p[254] |= 1
				fr = &frame.V2Frame{IncompatibilityFlag: 1, SequenceNumber: byte(j), SystemID: 1, ComponentID: 1,
					Message: &message.MessageRaw{ID: raw.ID, Payload: p}, Checksum: uint16(r.Intn(65536)),
					SignatureLinkID: 2, SignatureTimestamp: uint64(j), Signature: &frame.V2Signature{1, 2, 3, 4, 5, 6}}
			}
			t := time.UnixMicro(1700000000000000 + int64(j)*1000 + int64(r.Intn(1000)))
			w.Write(&tlog.Entry{Time: t, Frame: fr}) //nolint:errcheck
		}
		o.Add("read long log", tlogRead(bw.data, nil, n+2), "tlogr", "-", strconv.Itoa(n+2), hx.Hex(bw.data))
	}
}

// oracleWriter: the outcome of every Write call is scripted (exhausted: fails).
type oracleWriter struct {
	outcomes []bool
	data     []byte
}

func (b *oracleWriter) Write(p []byte) (int, error) {
	if len(b.outcomes) == 0 {
		return 0, errors.New("scripted write failure")
	}
	ok := b.outcomes[0]
	b.outcomes = b.outcomes[1:]
	if !ok {
		return 0, errors.New("scripted write failure")
	}
	b.data = append(b.data, p...)
	return len(p), nil
}

type budgetWriter struct {
	budget int
	data   []byte
}

func (b *budgetWriter) Write(p []byte) (int, error) {
	if b.budget <= 0 {
		return 0, errors.New("scripted write failure")
	}
	b.budget--
	b.data = append(b.data, p...)
	return len(p), nil
}

func tlogRead(file []byte, drw *dialect.ReadWriter, n int) string {
	rd := &tlog.Reader{ByteReader: bytes.NewReader(file), DialectRW: drw}
	if err := rd.Initialize(); err != nil {
		return "INITERR"
	}
	// the entries are kept and rendered only after the last read: an entry stays what it was
	// when returned, whatever is read after it
	type rec struct {
		e    *tlog.Entry
		mark string
	}
	var recs []rec
	for i := 0; i < n; i++ {
		var e *tlog.Entry
		var err error
		if hx.Safe(func() string { e, err = rd.Read(); return "" }) == "panic" {
			recs = append(recs, rec{nil, "PANIC"})
			break
		}
		if err != nil {
			recs = append(recs, rec{nil, "X"})
			continue
		}
		recs = append(recs, rec{e, ""})
	}
	var out []string
	for _, rc := range recs {
		if rc.e == nil {
			out = append(out, rc.mark)
			continue
		}
		e := rc.e
		s := fmt.Sprintf("E(%d#%s)", e.Time.UnixMicro(), hx.Frame(e.Frame))
		// UnixMicro() wraps around silently for instants outside the int64 range of microseconds: the
		// instant must be the one its microseconds denote
		if e.Time.Nanosecond()%1000 != 0 || e.Time.Location() != time.UTC || !e.Time.Equal(time.UnixMicro(e.Time.UnixMicro())) {
			s += "BAD-TIME"
		}
		out = append(out, s)
	}
	return strings.Join(out, " ")
}

func genC20(o *hx.Out, tier string) {
	r := hx.NewRand(20)
	d := shipped("minimal")
	drw := defineDialect(o, "minimal", d)
	// entries of one message type whose (zero-truncated) payloads get shorter and longer again, read
	// through one reader with the dialect: an entry must not keep anything of the entry before it
	{
		nrep := 4
		if tier == "thorough" {
			nrep = 40
		}
		for rep := 0; rep < nrep; rep++ {
			bw := &budgetWriter{budget: 1 << 30}
			w := &tlog.Writer{ByteWriter: bw, DialectRW: drw}
			w.Initialize() //nolint:errcheck
			proto := d.Messages[rep%len(d.Messages)]
			k := 0
			for _, mode := range []int{1, 0, 2, 1, 2, 0, 1} {
				fr := validFrame(r, drw, hx.RandMessage(r, proto, mode), true, nil)
				if w.Write(&tlog.Entry{Time: time.UnixMicro(1700000000000000 + int64(k)), Frame: fr}) == nil {
					k++
				}
			}
			o.Add("same message type, payload lengths varying", tlogRead(bw.data, drw, k+2), "tlogr", "minimal", strconv.Itoa(k+2), hx.Hex(bw.data))
		}
	}
	nseq := 14
	if tier == "thorough" {
		nseq = 150
	}
	times := []int64{0, 1, -1, 999999, 1000000, -1000000, -999999, 1700000000123456, -62135596800000000, 1 << 40, -(1 << 40)}
	for i := 0; i < nseq; i++ {
		withD := i%2 == 0
		var wdrw *dialect.ReadWriter
		dn := "-"
		if withD {
			wdrw = drw
			dn = "minimal"
		}
		n := 1 + r.Intn(4)
		var entries []*tlog.Entry
		var texts []string
		for j := 0; j < n; j++ {
			us := times[r.Intn(len(times))]
			if r.Intn(2) == 0 {
				us = int64(r.Uint64()>>uint(r.Intn(40))) - int64(r.Uint64()>>uint(10+r.Intn(40)))
			}
			t := time.UnixMicro(us).Add(time.Duration(r.Intn(1000)) * time.Nanosecond) // sub-microsecond offset: floors
			var fr frame.Frame
			switch {
			case (i%8 == 1 && j == 0) || r.Intn(12) == 0: // the largest frame: signed v2 with a 255-byte payload
				p := make([]byte, 255)
				r.Read(p)
				p[254] |= 1
				fr = &frame.V2Frame{IncompatibilityFlag: 1, SequenceNumber: byte(j), SystemID: 1, ComponentID: 1,
					Message: &message.MessageRaw{ID: uint32(r.Intn(1 << 24)), Payload: p}, Checksum: uint16(r.Intn(65536)),
					SignatureLinkID: 2, SignatureTimestamp: uint64(j), Signature: &frame.V2Signature{1, 2, 3, 4, 5, 6}}
			case withD && r.Intn(2) == 0:
				v2 := r.Intn(2) == 0
				fr = validFrame(r, drw, hx.RandMessage(r, d.Messages[r.Intn(len(d.Messages))], 2), v2, nil)
				// decoded message in the entry
				m := hx.RandMessage(r, d.Messages[r.Intn(len(d.Messages))], 2)
				switch f := fr.(type) {
				case *frame.V1Frame:
					f.Message = m
				case *frame.V2Frame:
					f.Message = m
				}
			case r.Intn(6) == 0: // unencodable: v1 frame with id > 255
				fr = &frame.V1Frame{Message: &message.MessageRaw{ID: 300 + uint32(r.Intn(1000)), Payload: []byte{1}}}
			case withD && r.Intn(6) == 0: // unencodable: decoded message that is not in the dialect
				fr = &frame.V2Frame{Message: &MessageUserA{A: 1}}
			default:
				fr = randFrame(r, r.Intn(2) == 0, r.Intn(3) == 0)
				if len(fr.GetMessage().(*message.MessageRaw).Payload) > 40 {
					fr.GetMessage().(*message.MessageRaw).Payload = fr.GetMessage().(*message.MessageRaw).Payload[:r.Intn(40)]
				}
			}
			entries = append(entries, &tlog.Entry{Time: t, Frame: fr})
			texts = append(texts, strconv.FormatInt(t.UnixMicro(), 10)+"#"+hx.Frame(fr))
		}
		// write with every budget of successful underlying writes (a write error at the k-th Write)
		var file []byte
		for budget := 2 * n; budget >= 0; budget-- {
			bw := &budgetWriter{budget: budget}
			w := &tlog.Writer{ByteWriter: bw, DialectRW: wdrw}
			w.Initialize() //nolint:errcheck
			// fresh copies of the frames: Write replaces decoded messages by their encoding
			var res []string
			for _, e := range entries {
				ec := *e
				switch f := e.Frame.(type) {
				case *frame.V1Frame:
					c := *f
					ec.Frame = &c
				case *frame.V2Frame:
					c := *f
					ec.Frame = &c
				}
				res = append(res, hx.Safe(func() string {
					if err := w.Write(&ec); err != nil {
						return "err"
					}
					return "ok"
				}))
			}
			o.Add("write budget", strings.Join(res, ",")+"|"+hx.Hex(bw.data), "tlogw", dn, strconv.Itoa(budget), strings.Join(texts, " "))
			if budget == 2*n {
				file = bw.data
			}
		}
		// a transient transport failure: exactly the k-th underlying Write fails, every other succeeds
		// (the writer must not carry anything over from the failed entry into the next one)
		for k := 0; k < 2*n; k++ {
			oracle := make([]bool, 2*n+2)
			otxt := "o"
			for q := range oracle {
				oracle[q] = q != k
				if oracle[q] {
					otxt += "1"
				} else {
					otxt += "0"
				}
			}
			ow := &oracleWriter{outcomes: oracle}
			w := &tlog.Writer{ByteWriter: ow, DialectRW: wdrw}
			w.Initialize() //nolint:errcheck
			var res []string
			for _, e := range entries {
				ec := *e
				switch f := e.Frame.(type) {
				case *frame.V1Frame:
					c := *f
					ec.Frame = &c
				case *frame.V2Frame:
					c := *f
					ec.Frame = &c
				}
				res = append(res, hx.Safe(func() string {
					if err := w.Write(&ec); err != nil {
						return "err"
					}
					return "ok"
				}))
			}
			o.Add("write with a transient failure", strings.Join(res, ",")+"|"+hx.Hex(ow.data), "tlogw", dn, otxt, strings.Join(texts, " "))
		}
		// read back whole, and at every cut offset
		reads := n + 3
		o.Add("read whole", tlogRead(file, wdrw, reads), "tlogr", dn, strconv.Itoa(reads), hx.Hex(file))
		for k := 0; k < len(file); k++ {
			o.Add("read cut", tlogRead(file[:k], wdrw, reads), "tlogr", dn, strconv.Itoa(reads), hx.Hex(file[:k]))
		}
	}
	genC20Long(o, r, tier)
}
