package main

import (
	"bytes"
	"fmt"
	"math/rand"
	"os"
	"os/exec"
	"path/filepath"
	"sort"
	"strconv"
	"strings"

	"github.com/bluenviron/gomavlib/v3/pkg/conversion"

	"verifharness/hx"
)

func init() { gens["C18"] = genC18 }

// ---- abstract definitions (what the XML says) ----
type xField struct {
	typ, name, enum string
	ext             bool
}
type xMsg struct {
	name   string
	id     int
	fields []xField
}
type xEntry struct{ name, value string }
type xEnum struct {
	name    string
	bitmask bool
	entries []xEntry
}
type xFile struct {
	addr     string
	includes []string
	version  string
	enums    []xEnum
	msgs     []xMsg
}

var c18Scalars = []string{"double", "uint64_t", "int64_t", "float", "uint32_t", "int32_t", "uint16_t", "int16_t", "uint8_t", "int8_t"}
var c18EnumTypes = []string{"uint8_t", "int8_t", "uint16_t", "uint32_t", "int32_t", "uint64_t"}
var c18Size = map[string]int{"double": 8, "uint64_t": 8, "int64_t": 8, "float": 4, "uint32_t": 4, "int32_t": 4,
	"uint16_t": 2, "int16_t": 2, "uint8_t": 1, "int8_t": 1, "char": 1, "uint8_t_mavlink_version": 1}

type c18Gen struct {
	r        *rand.Rand
	usedMsg  map[string]bool
	usedEnum map[string]bool
	usedEnt  map[string]bool
	nextID   int
}

func (g *c18Gen) word(upper bool) string {
	n := 1 + g.r.Intn(5)
	b := make([]byte, n)
	for i := range b {
		b[i] = byte('a' + g.r.Intn(26))
	}
	s := string(b)
	if upper {
		return strings.ToUpper(s)
	}
	return s
}

// fieldName: mostly snake case, sometimes shapes whose Go name does not convert back.
func (g *c18Gen) fieldName() string {
	switch g.r.Intn(10) {
	case 0:
		return g.word(false) + strconv.Itoa(g.r.Intn(20))
	case 1:
		return g.word(false) + "_" + strconv.Itoa(g.r.Intn(20))
	case 2: // capitals inside
		w := g.word(false)
		return strings.ToUpper(w[:1]) + w[1:]
	case 3:
		return g.word(false) + strings.ToUpper(g.word(false))
	case 4:
		return g.word(false) + "__" + g.word(false)
	case 5:
		return strings.ToUpper(g.word(false)) + "_" + strconv.Itoa(g.r.Intn(9))
	case 6:
		return g.word(false) + "_"
	default:
		s := g.word(false)
		for i := 0; i < g.r.Intn(3); i++ {
			s += "_" + g.word(false)
		}
		return s
	}
}

func (g *c18Gen) msgName() string {
	for {
		s := g.word(true)
		for i := 0; i < g.r.Intn(3); i++ {
			switch g.r.Intn(6) {
			case 0:
				s += "_" + strconv.Itoa(g.r.Intn(30))
			case 1:
				s += strconv.Itoa(g.r.Intn(10))
			case 2:
				s += "__" + g.word(true)
			default:
				s += "_" + g.word(true)
			}
		}
		if g.r.Intn(12) == 0 {
			s += "_"
		}
		if !g.usedMsg[s] && !g.usedMsg[strings.ReplaceAll(s, "_", "")] {
			g.usedMsg[s] = true
			g.usedMsg[strings.ReplaceAll(s, "_", "")] = true
			return s
		}
	}
}

func goNameOf(def string) string {
	// independent rendering of the documented rule: lower-case, "_x" -> "X", first letter upper
	s := strings.ToLower(def)
	var out []byte
	for i := 0; i < len(s); i++ {
		if s[i] == '_' && i+1 < len(s) && s[i+1] >= 'a' && s[i+1] <= 'z' {
			out = append(out, s[i+1]-32)
			i++
			continue
		}
		out = append(out, s[i])
	}
	if len(out) > 0 && out[0] >= 'a' && out[0] <= 'z' {
		out[0] -= 32
	}
	return string(out)
}

func (g *c18Gen) enumValue(bitmask bool, k int) string {
	var v uint64
	if bitmask {
		v = 1 << uint(k)
	} else {
		v = uint64(k)*7 + uint64(g.r.Intn(7))
	}
	if g.r.Intn(8) == 0 && !bitmask {
		v = g.r.Uint64() >> uint(g.r.Intn(64))
		v = v*1000 + uint64(k) // keep values distinct inside the enum
	}
	switch g.r.Intn(5) {
	case 0:
		return "0x" + strconv.FormatUint(v, 16)
	case 1:
		return "0b" + strconv.FormatUint(v, 2)
	case 2:
		if bitmask {
			return "2**" + strconv.Itoa(k)
		}
		return strconv.FormatUint(v, 10)
	case 3:
		return "0x" + strings.ToUpper(strconv.FormatUint(v, 16))
	default:
		return strconv.FormatUint(v, 10)
	}
}

func (g *c18Gen) enum() xEnum {
	var name string
	for {
		name = "E" + g.word(true) + "_" + g.word(true)
		if !g.usedEnum[name] {
			g.usedEnum[name] = true
			break
		}
	}
	e := xEnum{name: name, bitmask: g.r.Intn(3) == 0}
	n := 1 + g.r.Intn(6)
	for k := 0; k < n; k++ {
		var en string
		for {
			en = name + "_" + g.word(true)
			if !g.usedEnt[en] {
				g.usedEnt[en] = true
				break
			}
		}
		e.entries = append(e.entries, xEntry{en, g.enumValue(e.bitmask, k)})
	}
	return e
}

func (g *c18Gen) msg(enums []xEnum) xMsg {
	m := xMsg{name: g.msgName(), id: g.nextID}
	g.nextID += 1 + g.r.Intn(400)
	if g.r.Intn(6) == 0 {
		g.nextID += 70000
	}
	nf := 1 + g.r.Intn(9)
	size := 0
	usedGo := map[string]bool{}
	extFrom := nf + 1
	if g.r.Intn(3) == 0 {
		extFrom = 1 + g.r.Intn(nf)
	}
	for i := 0; i < nf; i++ {
		var f xField
		for {
			f.name = g.fieldName()
			gn := goNameOf(f.name)
			if !usedGo[gn] && !usedGo[strings.ToLower(gn)] {
				usedGo[gn] = true
				usedGo[strings.ToLower(gn)] = true
				break
			}
		}
		f.ext = i >= extFrom
		base := c18Scalars[g.r.Intn(len(c18Scalars))]
		n := 1
		switch g.r.Intn(8) {
		case 0:
			n = 1 + g.r.Intn(20)
			f.typ = fmt.Sprintf("char[%d]", n)
			base = "char"
		case 1:
			f.typ = "char"
			base = "char"
		case 2, 3:
			n = 1 + g.r.Intn(9)
			f.typ = fmt.Sprintf("%s[%d]", base, n)
		case 4:
			if len(enums) > 0 {
				base = c18EnumTypes[g.r.Intn(len(c18EnumTypes))]
				f.enum = enums[g.r.Intn(len(enums))].name
				f.typ = base
				if g.r.Intn(4) == 0 {
					n = 1 + g.r.Intn(4)
					f.typ = fmt.Sprintf("%s[%d]", base, n)
				}
			} else {
				f.typ = base
			}
		case 5:
			if i == nf-1 && !f.ext {
				f.typ = "uint8_t_mavlink_version"
				base = f.typ
			} else {
				f.typ = base
			}
		default:
			f.typ = base
		}
		if size+c18Size[base]*n > 255 {
			break
		}
		size += c18Size[base] * n
		m.fields = append(m.fields, f)
	}
	if len(m.fields) == 0 {
		m.fields = []xField{{typ: "uint8_t", name: "x"}}
	}
	return m
}

func xmlOf(f xFile) string {
	var b strings.Builder
	b.WriteString("<?xml version=\"1.0\"?>\n<mavlink>\n")
	for _, i := range f.includes {
		fmt.Fprintf(&b, "  <include>%s</include>\n", i)
	}
	if f.version != "" {
		fmt.Fprintf(&b, "  <version>%s</version>\n", f.version)
	}
	b.WriteString("  <dialect>0</dialect>\n  <enums>\n")
	for _, e := range f.enums {
		bm := ""
		if e.bitmask {
			bm = " bitmask=\"true\""
		}
		fmt.Fprintf(&b, "    <enum name=\"%s\"%s>\n      <description>enum %s</description>\n", e.name, bm, e.name)
		for _, en := range e.entries {
			fmt.Fprintf(&b, "      <entry value=\"%s\" name=\"%s\">\n        <description>entry</description>\n      </entry>\n", en.value, en.name)
		}
		b.WriteString("    </enum>\n")
	}
	b.WriteString("  </enums>\n  <messages>\n")
	for _, m := range f.msgs {
		fmt.Fprintf(&b, "    <message id=\"%d\" name=\"%s\">\n      <description>message %s\n second line</description>\n", m.id, m.name, m.name)
		ext := false
		for _, fl := range m.fields {
			if fl.ext && !ext {
				b.WriteString("      <extensions/>\n")
				ext = true
			}
			en := ""
			if fl.enum != "" {
				en = fmt.Sprintf(" enum=\"%s\"", fl.enum)
			}
			fmt.Fprintf(&b, "      <field type=\"%s\" name=\"%s\"%s>field %s</field>\n", fl.typ, fl.name, en, fl.name)
		}
		b.WriteString("    </message>\n")
	}
	b.WriteString("  </messages>\n</mavlink>\n")
	return b.String()
}

func fieldsText(fs []xField) string {
	var p []string
	for _, f := range fs {
		p = append(p, strings.Join([]string{hx.HexS(f.typ), hx.HexS(f.name), hx.HexS(f.enum), b2s(f.ext)}, ":"))
	}
	if len(p) == 0 {
		return "-"
	}
	return strings.Join(p, "|")
}


func pkgNameOf(addr string) string {
	b := strings.TrimSuffix(filepath.Base(addr), filepath.Ext(addr))
	return strings.ToLower(strings.ReplaceAll(b, "_", ""))
}

// convertIn runs conversion.Convert(root) with dir as working directory.
func convertIn(dir, root string) (err error) {
	old, _ := os.Getwd()
	if e := os.Chdir(dir); e != nil {
		return e
	}
	defer os.Chdir(old) //nolint:errcheck
	stderr := os.Stderr
	if devnull, e := os.OpenFile(os.DevNull, os.O_WRONLY, 0); e == nil {
		os.Stderr = devnull
		defer func() { os.Stderr = stderr; devnull.Close() }()
	}
	defer func() {
		if rec := recover(); rec != nil {
			err = fmt.Errorf("PANIC %v", rec)
		}
	}()
	return conversion.Convert(root, false)
}

func dirFiles(dir string) map[string][]byte {
	out := map[string][]byte{}
	ents, _ := os.ReadDir(dir)
	for _, e := range ents {
		b, _ := os.ReadFile(filepath.Join(dir, e.Name()))
		out[e.Name()] = b
	}
	return out
}

func genC18(o *hx.Out, tier string) {
	r := hx.NewRand(18)
	exe, _ := os.Executable()
	hroot := filepath.Dir(filepath.Dir(exe)) // .../harness
	gdir := filepath.Join(hroot, "gen18")
	os.RemoveAll(gdir)
	os.MkdirAll(filepath.Join(gdir, "again"), 0o755) //nolint:errcheck
	npk := 12
	if tier == "thorough" {
		npk = 60
	}
	type pkg struct {
		name  string
		root  string
		files []xFile
		err   error
	}
	var pkgs []*pkg
	for pi := 0; pi < npk; pi++ {
		g := &c18Gen{r: r, usedMsg: map[string]bool{}, usedEnum: map[string]bool{}, usedEnt: map[string]bool{}, nextID: r.Intn(3)}
		// include graph: root, 0..2 direct includes, possibly a common file included by several (diamond)
		rootAddr := fmt.Sprintf("c18_Pk%d.xml", pi)
		nin := r.Intn(3)
		if pi == 0 && nin == 0 {
			nin = 1 // package 0: a root that states version 0 over an include with a version of its own
		}
		var files []xFile
		common := ""
		if nin == 2 && r.Intn(2) == 0 {
			common = fmt.Sprintf("c18_pk%d_common.xml", pi)
		}
		mk := func(addr string, includes []string) xFile {
			f := xFile{addr: addr, includes: includes}
			switch r.Intn(6) {
			case 0: // no <version> element: the includes decide
			case 1: // an explicit version 0 is a version (it overrides the includes)
				f.version = "0"
			default:
				f.version = strconv.Itoa(1 + r.Intn(200))
			}
			for i := 0; i < r.Intn(4); i++ {
				f.enums = append(f.enums, g.enum())
			}
			return f
		}
		var all []xEnum
		if common != "" {
			f := mk(common, nil)
			all = append(all, f.enums...)
			for i := 0; i < 1+r.Intn(3); i++ {
				f.msgs = append(f.msgs, g.msg(all))
			}
			files = append(files, f)
		}
		var incs []string
		for i := 0; i < nin; i++ {
			addr := fmt.Sprintf("c18_pk%d_inc%d.xml", pi, i)
			var ii []string
			if common != "" {
				ii = []string{common}
			}
			f := mk(addr, ii)
			all = append(all, f.enums...)
			for j := 0; j < 1+r.Intn(4); j++ {
				f.msgs = append(f.msgs, g.msg(all))
			}
			files = append(files, f)
			incs = append(incs, addr)
		}
		if common != "" && r.Intn(2) == 0 {
			incs = append(incs, common)
		}
		rf := mk(rootAddr, incs)
		if pi == 0 {
			rf.version = "0"
			files[len(files)-1].version = strconv.Itoa(1 + r.Intn(200))
		}
		// every other package: the root extends an enum of a definition it includes with entries of its
		// own (the generator merges them into one Go type)
		if pi%2 == 1 {
			for _, inc := range files {
				if len(inc.enums) == 0 {
					continue
				}
				be := inc.enums[0]
				ext := xEnum{name: be.name, bitmask: be.bitmask}
				for k := 0; k < 2; k++ {
					en := fmt.Sprintf("%s_EXT%d_%d", be.name, pi, k)
					v := strconv.Itoa(900000 + 10*pi + k)
					if be.bitmask {
						v = "2**" + strconv.Itoa(40+k)
					}
					ext.entries = append(ext.entries, xEntry{en, v})
				}
				rf.enums = append(rf.enums, ext)
				break
			}
		}
		all = append(all, rf.enums...)
		for j := 0; j < 2+r.Intn(6); j++ {
			rf.msgs = append(rf.msgs, g.msg(all))
		}
		files = append(files, rf)
		for _, f := range files {
			os.WriteFile(filepath.Join(gdir, f.addr), []byte(xmlOf(f)), 0o644)          //nolint:errcheck
			os.WriteFile(filepath.Join(gdir, "again", f.addr), []byte(xmlOf(f)), 0o644) //nolint:errcheck
		}
		p := &pkg{name: pkgNameOf(rootAddr), root: rootAddr, files: files}
		p.err = convertIn(gdir, rootAddr)
		err2 := convertIn(filepath.Join(gdir, "again"), rootAddr)
		same := "same"
		if (p.err == nil) != (err2 == nil) {
			same = "DIFFERENT-OUTCOME"
		} else if p.err == nil {
			a, b := dirFiles(filepath.Join(gdir, p.name)), dirFiles(filepath.Join(gdir, "again", p.name))
			if len(a) != len(b) {
				same = "DIFFERENT-FILE-SET"
			}
			for k, v := range a {
				if !bytes.Equal(v, b[k]) {
					same = "DIFFERENT " + k
				}
			}
		}
		o.Add("generated twice", same, "expect", "same")
		pkgs = append(pkgs, p)
	}
	os.RemoveAll(filepath.Join(gdir, "again"))

	// definitions the generator must refuse
	bad := []struct {
		class string
		m     xMsg
	}{
		{"unknown type", xMsg{name: "BAD_TYPE", id: 1, fields: []xField{{typ: "uint128_t", name: "a"}}}},
		{"unknown array type", xMsg{name: "BAD_ARR", id: 1, fields: []xField{{typ: "uint8_t", name: "ok"}, {typ: "bool[4]", name: "a"}}}},
		{"lower-case message name", xMsg{name: "bad_name", id: 1, fields: []xField{{typ: "uint8_t", name: "a"}}}},
		{"message name with a dash", xMsg{name: "BAD-NAME", id: 1, fields: []xField{{typ: "uint8_t", name: "a"}}}},
		{"empty type", xMsg{name: "BAD_EMPTY", id: 1, fields: []xField{{typ: "", name: "a"}}}},
		{"array of nothing", xMsg{name: "BAD_ARR0", id: 1, fields: []xField{{typ: "[4]", name: "a"}}}},
	}
	for i, bd := range bad {
		addr := fmt.Sprintf("c18_bad%d.xml", i)
		os.WriteFile(filepath.Join(gdir, addr), []byte(xmlOf(xFile{addr: addr, version: "1", msgs: []xMsg{bd.m}})), 0o644) //nolint:errcheck
		err := convertIn(gdir, addr)
		impl := "err"
		if err == nil {
			impl = "ACCEPTED"
		}
		os.RemoveAll(filepath.Join(gdir, pkgNameOf(addr)))
		o.Add("refused definition: "+bd.class, impl, "genmsg", hx.HexS(bd.m.name), strconv.Itoa(bd.m.id), fieldsText(bd.m.fields))
	}
	badEnums := []string{"", "0x", "0b", "0b102", "12a", "-1", "+1", "1_000", "2**", "**2", "2**x", "18446744073709551616", "0x10000000000000000", "1e3", " 1"}
	for i, v := range badEnums {
		addr := fmt.Sprintf("c18_bade%d.xml", i)
		f := xFile{addr: addr, version: "1", enums: []xEnum{{name: "EBAD", entries: []xEntry{{"EBAD_A", v}}}},
			msgs: []xMsg{{name: "OK", id: 1, fields: []xField{{typ: "uint8_t", name: "a"}}}}}
		os.WriteFile(filepath.Join(gdir, addr), []byte(xmlOf(f)), 0o644) //nolint:errcheck
		err := convertIn(gdir, addr)
		impl := "err"
		if err == nil {
			impl = "ACCEPTED"
		}
		os.RemoveAll(filepath.Join(gdir, pkgNameOf(addr)))
		o.Add("refused enum value", impl, "genenum", hx.HexS(v))
	}
	// a missing include
	{
		addr := "c18_missing.xml"
		f := xFile{addr: addr, includes: []string{"c18_nowhere.xml"}, version: "1", msgs: []xMsg{{name: "OK", id: 1, fields: []xField{{typ: "uint8_t", name: "a"}}}}}
		os.WriteFile(filepath.Join(gdir, addr), []byte(xmlOf(f)), 0o644) //nolint:errcheck
		err := convertIn(gdir, addr)
		impl := "err"
		if err == nil {
			impl = "ACCEPTED"
		}
		os.RemoveAll(filepath.Join(gdir, pkgNameOf(addr)))
		o.Add("missing include", impl, "gendialect", hx.HexS(addr), hx.HexS(addr)+";"+hx.HexS("c18_nowhere.xml")+";"+hx.HexS("1")+";"+hx.HexS("OK"))
	}

	// what was refused leaves nothing behind: definitions refused at a field with an extension flag and
	// a name that is not snake case, then every good package generated once more, elsewhere: the files
	// are those of the first time
	{
		for k, typ := range []string{"uint128_t", "bool[3]", "float16_t"} {
			addr := fmt.Sprintf("c18_refused_%d.xml", k)
			f := xFile{addr: addr, version: "1", msgs: []xMsg{{name: "REFUSED", id: 1, fields: []xField{
				{typ: "uint8_t", name: "ok"}, {typ: typ, name: "notSnake_Case", ext: true}}}}}
			os.WriteFile(filepath.Join(gdir, addr), []byte(xmlOf(f)), 0o644) //nolint:errcheck
			convertIn(gdir, addr)                                               //nolint:errcheck
			os.RemoveAll(filepath.Join(gdir, pkgNameOf(addr)))
		}
		after := filepath.Join(gdir, "after")
		os.MkdirAll(after, 0o755) //nolint:errcheck
		for _, p := range pkgs {
			if p.err != nil {
				continue
			}
			for _, f := range p.files {
				os.WriteFile(filepath.Join(after, f.addr), []byte(xmlOf(f)), 0o644) //nolint:errcheck
			}
			same := "same"
			if err := convertIn(after, p.root); err != nil {
				same = "REFUSED-THE-SECOND-TIME " + err.Error()
			} else {
				a, b := dirFiles(filepath.Join(gdir, p.name)), dirFiles(filepath.Join(after, p.name))
				if len(a) != len(b) {
					same = "DIFFERENT-FILE-SET"
				}
				for k, v := range a {
					if !bytes.Equal(v, b[k]) {
						same = "DIFFERENT " + k
					}
				}
			}
			o.Add("generated again after refused definitions", same, "expect", "same")
		}
		os.RemoveAll(after)
	}

	// ---- the probe: compile the generated packages and report what they are ----
	var pb strings.Builder
	pb.WriteString("package main\n\nimport (\n\t\"fmt\"\n\t\"reflect\"\n\t\"strings\"\n\n\t\"github.com/bluenviron/gomavlib/v3/pkg/dialect\"\n\t\"github.com/bluenviron/gomavlib/v3/pkg/message\"\n\t\"verifharness/hx\"\n")
	for _, p := range pkgs {
		if p.err == nil {
			fmt.Fprintf(&pb, "\t%s \"verifharness/gen18/%s\"\n", p.name, p.name)
		}
	}
	pb.WriteString(")\n\nfunc emit(name string, d *dialect.Dialect) {\n")
	pb.WriteString("\tdrw := &dialect.ReadWriter{Dialect: d}\n\tierr := \"ok\"\n\tif err := drw.Initialize(); err != nil {\n\t\tierr = \"INIT-ERROR \" + strings.ReplaceAll(err.Error(), \" \", \"_\")\n\t}\n")
	pb.WriteString("\tvar names []string\n\tfor _, m := range d.Messages {\n\t\tt := reflect.TypeOf(m).Elem()\n\t\tnames = append(names, t.Name())\n\t\tmrw := &message.ReadWriter{Message: m}\n\t\tcrc := \"err\"\n\t\tif err := mrw.Initialize(); err == nil {\n\t\t\tcrc = fmt.Sprint(mrw.CRCExtra())\n\t\t}\n")
	pb.WriteString("\t\tfmt.Printf(\"msg %s %s %d %s\\n\", name, hx.GoStruct(t), m.GetID(), crc)\n\t}\n")
	pb.WriteString("\tfmt.Printf(\"dialect %s %d %s %s\\n\", name, d.Version, ierr, strings.Join(names, \",\"))\n}\n\nfunc main() {\n")
	for _, p := range pkgs {
		if p.err != nil {
			continue
		}
		fmt.Fprintf(&pb, "\temit(%q, %s.Dialect)\n", p.name, p.name)
		for _, f := range p.files {
			for _, e := range f.enums {
				for _, en := range e.entries {
					fmt.Fprintf(&pb, "\tfmt.Println(\"enum\", %q, %q, uint64(%s.%s))\n", p.name, en.name, p.name, en.name)
				}
			}
		}
	}
	pb.WriteString("}\n")
	os.MkdirAll(filepath.Join(gdir, "probe"), 0o755)                                      //nolint:errcheck
	os.WriteFile(filepath.Join(gdir, "probe", "main.go"), []byte(pb.String()), 0o644) //nolint:errcheck
	cmd := exec.Command("go", "build", "-tags", "verif", "-o", filepath.Join(gdir, "probe.bin"), "./gen18/probe")
	cmd.Dir = hroot
	bout, berr := cmd.CombinedOutput()
	facts := map[string]string{}
	buildMsg := ""
	if berr != nil {
		buildMsg = "BUILD-FAILED " + strings.Join(strings.Fields(string(bout)), " ")
		if len(buildMsg) > 1500 {
			buildMsg = buildMsg[:1500]
		}
	} else {
		out, err := exec.Command(filepath.Join(gdir, "probe.bin")).CombinedOutput()
		if err != nil {
			buildMsg = "PROBE-FAILED " + strings.Join(strings.Fields(string(out)), " ")
		}
		for _, l := range strings.Split(string(out), "\n") {
			f := strings.SplitN(l, " ", 4)
			switch {
			case len(f) == 4 && f[0] == "enum":
				facts["enum "+f[1]+" "+f[2]] = f[3]
			case len(f) == 4 && f[0] == "msg":
				// msg <pkg> <gostruct> <id> <crc>: keyed by the struct name
				rest := strings.SplitN(f[2]+" "+f[3], " ", 3)
				sn := strings.SplitN(rest[0], "|", 2)[0]
				facts["msg "+f[1]+" "+sn] = strings.Join(rest, " ")
			case len(f) == 4 && f[0] == "dialect":
				facts["dialect "+f[1]] = f[2] + " " + f[3]
			}
		}
	}
	for _, p := range pkgs {
		// the dialect: version and message order
		var ft []string
		for _, f := range p.files {
			var names []string
			for _, m := range f.msgs {
				names = append(names, hx.HexS(m.name))
			}
			var incs []string
			for _, i := range f.includes {
				incs = append(incs, hx.HexS(i))
			}
			ft = append(ft, strings.Join([]string{hx.HexS(f.addr), strings.Join(incs, ","), hx.HexS(f.version), strings.Join(names, ",")}, ";"))
		}
		impl := buildMsg
		if p.err != nil {
			impl = "err"
		} else if impl == "" {
			impl = "MISSING"
			if v, ok := facts["dialect "+p.name]; ok {
				impl = v
			}
		}
		o.Add("dialect: includes, version, message order", impl, "gendialect", hx.HexS(p.root), strings.Join(ft, " "))
		for _, f := range p.files {
			for _, m := range f.msgs {
				impl := buildMsg
				if p.err != nil {
					impl = "err"
				} else if impl == "" {
					impl = "MISSING"
					if v, ok := facts["msg "+p.name+" "+hx.HexS("Message"+goNameOf(m.name))]; ok {
						impl = "ok " + v
					}
				}
				o.Add("generated message", impl, "genmsg", hx.HexS(m.name), strconv.Itoa(m.id), fieldsText(m.fields))
			}
			for _, e := range f.enums {
				for _, en := range e.entries {
					impl := buildMsg
					if p.err != nil {
						impl = "err"
					} else if impl == "" {
						impl = "MISSING"
						if v, ok := facts["enum "+p.name+" "+en.name]; ok {
							impl = v
						}
					}
					o.Add("enum constant", impl, "genenum", hx.HexS(en.value))
				}
			}
		}
	}
	// leave the generated sources for inspection but not the binary
	os.Remove(filepath.Join(gdir, "probe.bin"))
	var keys []string
	for k := range facts {
		keys = append(keys, k)
	}
	sort.Strings(keys)
}
