package main

import (
	"github.com/bluenviron/gomavlib/v3"
	"github.com/bluenviron/gomavlib/v3/pkg/dialect"
	"github.com/bluenviron/gomavlib/v3/pkg/frame"
	"github.com/bluenviron/gomavlib/v3/pkg/message"
	"github.com/bluenviron/gomavlib/v3/pkg/streamwriter"
	"math/rand"
	"strings"
	"time"
	"verifharness/scn"

	"verifharness/hx"
)

func init() { gens["C09"] = genC09 }

func genC09(o *hx.Out, tier string) {
	r := hx.NewRand(9)
	d := shipped("common")
	drw := defineDialect(o, "common", d)
	// initialisation validation, all small configurations
	for _, ver := range []int{0, 1, 2} {
		for _, sys := range []int{0, 1, 255} {
			for _, comp := range []int{0, 1, 200} {
				for _, key := range []bool{false, true} {
					fw := &frame.Writer{ByteWriter: &countWriter{}, DialectRW: drw}
					fw.Initialize() //nolint:errcheck
					sw := &streamwriter.Writer{FrameWriter: fw, Version: streamwriter.Version(ver), SystemID: byte(sys),
						ComponentID: byte(comp)}
					if key {
						sw.Key = frame.NewV2Key(make([]byte, 32))
					}
					impl := "err"
					if err := sw.Initialize(); err == nil {
						impl = "ok " + u(uint64(sw.ComponentID))
					}
					o.Add("init", impl, "winit", u(uint64(ver)), u(uint64(sys)), u(uint64(comp)), b2s(key))
					// the same rules through a Node
					nd := &gomavlib.Node{Endpoints: []gomavlib.EndpointConf{gomavlib.EndpointCustom{ReadWriteCloser: scn.NewPipe("c09init")}},
						Dialect: d, OutVersion: gomavlib.Version(ver), OutSystemID: byte(sys), OutComponentID: byte(comp), HeartbeatDisable: true}
					if key {
						nd.OutKey = frame.NewV2Key(make([]byte, 32))
					}
					impl = "err"
					if err := nd.Initialize(); err == nil {
						impl = "ok " + u(uint64(nd.OutComponentID))
						go func() {
							for range nd.Events() {
							}
						}()
						nd.Close()
					}
					o.Add("node init", impl, "winit", u(uint64(ver)), u(uint64(sys)), u(uint64(comp)), b2s(key))
				}
			}
		}
	}
	nh := 12
	if tier == "thorough" {
		nh = 150
	}
	for i := 0; i < nh; i++ {
		c := wconf{v2: i%2 == 0, sys: byte(1 + r.Intn(255)), comp: byte(r.Intn(4)), link: byte(r.Intn(256)),
			dname: "common", drw: drw}
		if c.v2 && i%4 == 0 {
			c.key = frame.NewV2Key([]byte{byte(i), 2, 3})
		}
		n := 300 + r.Intn(400)
		var msgs []message.Message
		for j := 0; j < n; j++ {
			switch r.Intn(10) {
			case 0: // raw, not in the dialect: rejected
				msgs = append(msgs, &message.MessageRaw{ID: 99999, Payload: []byte{1, 2}})
			case 1: // raw message of the dialect
				m := d.Messages[r.Intn(len(d.Messages))]
				raw := drw.GetMessage(m.GetID()).Write(hx.RandMessage(r, m, 2), c.v2)
				msgs = append(msgs, raw)
			case 2: // id above 255 (rejected on v1)
				for {
					m := d.Messages[r.Intn(len(d.Messages))]
					if m.GetID() > 255 {
						msgs = append(msgs, hx.RandMessage(r, m, 2))
						break
					}
				}
			default:
				msgs = append(msgs, hx.RandMessage(r, d.Messages[r.Intn(len(d.Messages))], r.Intn(3)))
			}
		}
		legacy := i%3 == 2
		impl, ops := runWrites(c, msgs, legacy)
		class := "history streamwriter"
		if legacy {
			class = "history frame.Writer.WriteMessage"
		}
		o.Add(class, impl, append(append([]string{"swrite"}, c.fields()...), ops)...)
	}
	genC09Node(o, r, d, drw, tier)
}

// genC09Node: the same property through a Node — frames the node originates on a channel carry
// the configured version and ids, gapless sequence numbers and the right checksum (messages with
// extension fields and trailing zeros included: version 1 output omits extensions).
func genC09Node(o *hx.Out, r *rand.Rand, d *dialect.Dialect, drw *dialect.ReadWriter, tier string) {
	nn := 12
	if tier == "thorough" {
		nn = 150
	}
	for i := 0; i < nn; i++ {
		c := wconf{v2: i%2 == 0, sys: byte(1 + r.Intn(255)), comp: byte(r.Intn(256)), dname: "common", drw: drw}
		pipe := scn.NewPipe("c09")
		ver := gomavlib.V1
		if c.v2 {
			ver = gomavlib.V2
		}
		// every third node has an incoming key only (it checks what it receives; what it sends is
		// as configured: version, no signature)
		var inKey *frame.V2Key
		if i%3 == 1 {
			inKey = frame.NewV2Key([]byte("incoming only"))
		}
		node, err := gomavlib.NewNode(gomavlib.NodeConf{Endpoints: []gomavlib.EndpointConf{gomavlib.EndpointCustom{ReadWriteCloser: pipe}},
			Dialect: d, OutVersion: ver, OutSystemID: c.sys, OutComponentID: c.comp, HeartbeatDisable: true, InKey: inKey})
		if err != nil {
			o.Add("node originated", "NODE-INIT-FAILED", append(append([]string{"swrite"}, c.fields()...), "-")...)
			continue
		}
		opened := make(chan struct{})
		go func() {
			first := true
			for evt := range node.Events() {
				if _, ok := evt.(*gomavlib.EventChannelOpen); ok && first {
					first = false
					close(opened)
				}
			}
		}()
		select {
		case <-opened:
		case <-time.After(scn.Timeout):
		}
		n := 10 + r.Intn(40) // below the channel's queue capacity
		var opl []string
		for j := 0; j < n; j++ {
			var m message.Message
			for {
				m = hx.RandMessage(r, d.Messages[r.Intn(len(d.Messages))], r.Intn(3))
				if c.v2 || m.GetID() <= 255 {
					break
				}
			}
			opl = append(opl, hx.Msg(m)+"@0")
			node.WriteMessageAll(m) //nolint:errcheck
		}
		pipe.WaitWrites(func(ws [][]byte) bool { return len(ws) >= n })
		var outs []string
		for _, w := range pipe.Writes() {
			outs = append(outs, "ok "+hx.Hex(w))
		}
		node.Close()
		o.Add("node originated", strings.Join(outs, ";"), append(append([]string{"swrite"}, c.fields()...), strings.Join(opl, " "))...)
	}
}
