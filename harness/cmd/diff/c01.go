package main

import (
	"fmt"
	"math/rand"

	"github.com/bluenviron/gomavlib/v3/pkg/dialect"
	"github.com/bluenviron/gomavlib/v3/pkg/frame"
	"github.com/bluenviron/gomavlib/v3/pkg/message"

	"verifharness/hx"
)

func init() { gens["C01"] = genC01 }

type countWriter struct {
	calls int
	data  []byte
}

func (c *countWriter) Write(p []byte) (int, error) {
	c.calls++
	c.data = append(c.data, p...)
	return len(p), nil
}

// implWrite runs frame.Writer.Write and renders the outcome in the model's format.
func implWrite(drw *dialect.ReadWriter, fr frame.Frame) (string, []byte) {
	cw := &countWriter{}
	var data []byte
	s := hx.Safe(func() string {
		w := &frame.Writer{ByteWriter: cw, DialectRW: drw}
		if err := w.Initialize(); err != nil {
			return "initerr"
		}
		if err := w.Write(fr); err != nil {
			if cw.calls != 0 {
				return fmt.Sprintf("err-after-%d-writes", cw.calls)
			}
			return "err"
		}
		if cw.calls != 1 {
			return fmt.Sprintf("ok-in-%d-writes", cw.calls)
		}
		data = cw.data
		return "ok " + hx.Hex(cw.data) + " " + hx.Frame(fr)
	})
	return s, data
}

var byteBound = []byte{0, 1, 0x7f, 0x80, 0xfd, 0xfe, 0xff}
var idBound = []uint32{0, 1, 255, 256, 0x0607, 0xffff, 0x10000, 0xfffffe, 0xffffff}
var lenBound = []int{0, 1, 2, 3, 254, 255}
var tsBound = []uint64{0, 1, 1<<24 - 1, 1 << 24, 1<<32 - 1, 1 << 32, 1<<40 - 1, 1 << 40, 1<<48 - 1}

func pick[T any](r *rand.Rand, l []T) T { return l[r.Intn(len(l))] }

func bnd(r *rand.Rand) byte {
	if r.Intn(2) == 0 {
		return pick(r, byteBound)
	}
	return byte(r.Intn(256))
}

func randPayload(r *rand.Rand) []byte {
	n := pick(r, lenBound)
	if r.Intn(2) == 0 {
		n = r.Intn(256)
	}
	if n == 0 {
		if r.Intn(2) == 0 {
			return nil
		}
		return []byte{}
	}
	p := make([]byte, n)
	switch r.Intn(4) {
	case 0: // zeros
	case 1:
		for i := range p {
			p[i] = 0xff
		}
	default:
		r.Read(p)
	}
	return p
}

func randFrame(r *rand.Rand, v2 bool, signed bool) frame.Frame {
	id := pick(r, idBound)
	if r.Intn(2) == 0 {
		id = uint32(r.Intn(1 << 24))
	}
	ck := uint16(r.Intn(65536))
	if r.Intn(4) == 0 {
		ck = pick(r, []uint16{0, 1, 0xff, 0x100, 0xffff})
	}
	if !v2 {
		if r.Intn(4) != 0 {
			id &= 0xff
		}
		return &frame.V1Frame{SequenceNumber: bnd(r), SystemID: bnd(r), ComponentID: bnd(r),
			Message: &message.MessageRaw{ID: id, Payload: randPayload(r)}, Checksum: ck}
	}
	f := &frame.V2Frame{CompatibilityFlag: bnd(r), SequenceNumber: bnd(r), SystemID: bnd(r), ComponentID: bnd(r),
		Message: &message.MessageRaw{ID: id, Payload: randPayload(r)}, Checksum: ck}
	if signed {
		f.IncompatibilityFlag = 1
		f.SignatureLinkID = bnd(r)
		f.SignatureTimestamp = pick(r, tsBound)
		if r.Intn(2) == 0 {
			f.SignatureTimestamp = r.Uint64() & (1<<48 - 1)
		}
		f.Signature = new(frame.V2Signature)
		r.Read(f.Signature[:])
		if r.Intn(8) == 0 {
			*f.Signature = frame.V2Signature{}
		}
	}
	return f
}

func genC01(o *hx.Out, tier string) {
	r := hx.NewRand(1)
	// reading back: a frame equals what was written, whatever the same reader refused before it
	{
		md := shipped("minimal")
		mdrw := defineDialect(o, "minimal", md)
		// frames of one message type whose zero-truncated payloads get shorter and longer again
		for rep := 0; rep < 12; rep++ {
			proto := md.Messages[rep%len(md.Messages)]
			var st []byte
			for _, mode := range []int{1, 0, 2, 1, 2, 0, 1} {
				bs, _ := writeFrame(mdrw, validFrame(r, mdrw, hx.RandMessage(r, proto, mode), true, nil))
				st = append(st, bs...)
			}
			cs := one(st)
			o.AddLater("read frames of one type, lengths varying", hx.ReadAllLater(cs, mdrw, nil, nil), "fread", "minimal", "-", hx.ChunksText(cs))
		}
		for _, st := range refusedThenAccepted(r, md, mdrw, 30) {
			for _, cs := range [][]hx.Chunk{one(st), splitRandom(r, st)} {
				o.AddLater("read after a refused frame", hx.ReadAllLater(cs, mdrw, nil, nil), "fread", "minimal", "-", hx.ChunksText(cs))
			}
		}
	}
	n := 6000
	if tier == "thorough" {
		n = 200000
	}
	for i := 0; i < n; i++ {
		v2 := i%2 == 0
		signed := v2 && (i/2)%2 == 0
		fr := randFrame(r, v2, signed)
		before := hx.Frame(fr)
		class := fmt.Sprintf("write v2=%v signed=%v", v2, signed)
		impl, data := implWrite(nil, fr)
		o.Add(class, impl, "fwrite", "-", before)
		if data == nil {
			continue
		}
		// read back, in one chunk and in a random split, followed by junk or another frame
		tail := []byte{}
		if r.Intn(2) == 0 {
			tail = []byte{byte(r.Intn(253))}
		}
		all := append(append([]byte(nil), data...), tail...)
		cs := one(all)
		if r.Intn(2) == 0 {
			cs = splitRandom(r, all)
		}
		o.AddLater(fmt.Sprintf("read v2=%v signed=%v", v2, signed), hx.ReadAllLater(cs, nil, nil, nil),
			"fread", "-", "-", hx.ChunksText(cs))
	}
	// out-of-version and unusual header values: unknown incompatibility flags
	for i := 0; i < 300; i++ {
		f := randFrame(r, true, true).(*frame.V2Frame)
		f.IncompatibilityFlag = byte(r.Intn(256))
		before := hx.Frame(f)
		impl, data := implWrite(nil, f)
		o.Add("write odd-incompat", impl, "fwrite", "-", before)
		if data != nil {
			cs := one(data)
			o.AddLater("read odd-incompat", hx.ReadAllLater(cs, nil, nil, nil), "fread", "-", "-", hx.ChunksText(cs))
		}
	}
}
