package main

import (
	"fmt"
	"github.com/bluenviron/gomavlib/v3"
	"math/rand"
	"reflect"
	"strings"
	"sync"
	"verifharness/scn"

	"github.com/bluenviron/gomavlib/v3/pkg/dialect"
	"github.com/bluenviron/gomavlib/v3/pkg/message"

	"verifharness/hx"
)

func init() { gens["C17"] = genC17 }

func genC17(o *hx.Out, tier string) {
	r := hx.NewRand(17)
	c17Concurrent(o, tier)
	c17Sequences(o)
	c17NodeDialectChanged(o)
	for _, nd := range hx.Shipped() {
		drw := defineDialect(o, nd.Name, nd.D)
		ids := map[uint32]bool{}
		look := func(id uint32) {
			if ids[id] {
				return
			}
			ids[id] = true
			impl := "none"
			if mrw := drw.GetMessage(id); mrw != nil {
				impl = "some " + u(uint64(mrw.CRCExtra()))
				// the codec returned is the one of the message with that id
				if mrw.Message.GetID() != id {
					impl = "some-wrong-message"
				}
			}
			o.Add("lookup", impl, "lookup", nd.Name, u(uint64(id)))
		}
		for _, m := range nd.D.Messages {
			id := m.GetID()
			look(id)
			look(id + 1)
			if id > 0 {
				look(id - 1)
			}
		}
		n := 300
		if tier == "thorough" {
			n = 20000
		}
		for i := 0; i < n; i++ {
			look(uint32(r.Intn(1 << 24)))
		}
		look(1<<24 - 1)
		look(1 << 24)
		look(1<<32 - 1)
	}
	// user dialects: subsets with injected duplicates and malformed structs
	pool := append([]message.Message{}, shipped("common").Messages...)
	nd := 120
	if tier == "thorough" {
		nd = 2000
	}
	for i := 0; i < nd; i++ {
		var msgs []message.Message
		k := 1 + r.Intn(12)
		for j := 0; j < k; j++ {
			msgs = append(msgs, pool[r.Intn(len(pool))])
		}
		class := "user-dialect"
		switch r.Intn(4) {
		case 0:
			dup := msgs[r.Intn(len(msgs))] // duplicate id: the same value again, or a fresh value of the same type
			if r.Intn(2) == 0 {
				dup = reflect.New(reflect.TypeOf(dup).Elem()).Interface().(message.Message)
			}
			msgs = append(msgs, dup)
			r.Shuffle(len(msgs), func(a, b int) { msgs[a], msgs[b] = msgs[b], msgs[a] })
			class = "user-dialect duplicate"
		case 1:
			msgs = append(msgs, userStructs[11+r.Intn(7)]) // malformed struct
			r.Shuffle(len(msgs), func(a, b int) { msgs[a], msgs[b] = msgs[b], msgs[a] })
			class = "user-dialect malformed"
		case 2:
			msgs = append(msgs, userStructs[r.Intn(11)])
		}
		drw := &dialect.ReadWriter{Dialect: &dialect.Dialect{Version: 1, Messages: msgs}}
		impl := hx.Safe(func() string {
			if err := drw.Initialize(); err != nil {
				return "err"
			}
			return "ok"
		})
		var parts []string
		for _, m := range msgs {
			parts = append(parts, u(uint64(m.GetID()))+"="+hx.GoStruct(reflect.TypeOf(m).Elem()))
		}
		o.Add(class, impl, "dinit", strings.Join(parts, " "))
	}
}

// c17Concurrent: a node shares one dialect.ReadWriter between the readers of all its channels, so
// ids are looked up from several goroutines at once; every lookup must still return the codec of
// the message with that id (and nothing for an absent id), whatever the others look up meanwhile.
func c17Concurrent(o *hx.Out, tier string) {
	d := shipped("common")
	drw := &dialect.ReadWriter{Dialect: d}
	if err := drw.Initialize(); err != nil {
		o.Add("concurrent lookups", "INIT-FAILED", "expect", "ok", "concurrent lookups")
		return
	}
	want := map[uint32]*message.ReadWriter{}
	var ids []uint32
	for _, m := range d.Messages {
		want[m.GetID()] = drw.GetMessage(m.GetID())
		ids = append(ids, m.GetID())
	}
	ids = append(ids, 99999, 1<<24-1) // absent
	rounds := 20000
	if tier == "thorough" {
		rounds = 400000
	}
	const workers = 8
	wrong := make([]int, workers)
	var wg sync.WaitGroup
	for w := 0; w < workers; w++ {
		wg.Add(1)
		go func(w int) {
			defer wg.Done()
			rr := rand.New(rand.NewSource(int64(1700 + w)))
			// each worker keeps to a few ids of its own most of the time, as a channel that carries a few message types does
			mine := []uint32{ids[rr.Intn(len(ids))], ids[rr.Intn(len(ids))], ids[rr.Intn(len(ids))]}
			for i := 0; i < rounds; i++ {
				id := mine[i%3]
				if i%17 == 0 {
					id = ids[rr.Intn(len(ids))]
				}
				if drw.GetMessage(id) != want[id] {
					wrong[w]++
				}
			}
		}(w)
	}
	wg.Wait()
	total := 0
	for _, n := range wrong {
		total += n
	}
	verdict := "ok"
	if total != 0 {
		verdict = fmt.Sprintf("WRONG-CODEC-RETURNED %d of %d concurrent lookups", total, workers*rounds)
	}
	o.Add("concurrent lookups", verdict, "expect", "ok", "concurrent lookups")
}

// c17Sequences: what a lookup returns does not depend on the lookups before it: a present id, then an
// absent id twice, then the present id again, for every message of the common dialect.
func c17Sequences(o *hx.Out) {
	d := shipped("common")
	drw := &dialect.ReadWriter{Dialect: d}
	if drw.Initialize() != nil {
		return
	}
	bad := 0
	first := ""
	for _, m := range d.Messages {
		id := m.GetID()
		for _, absent := range []uint32{id + 100000, 99999, 1<<24 - 1} {
			a := drw.GetMessage(id)
			b := drw.GetMessage(absent)
			c := drw.GetMessage(absent)
			e := drw.GetMessage(id)
			if a == nil || e != a || b != nil || c != nil || a.Message.GetID() != id {
				bad++
				if first == "" {
					first = fmt.Sprintf("id %d then absent %d twice: %v %v %v %v", id, absent, a != nil, b != nil, c != nil, e == a)
				}
			}
		}
	}
	verdict := "ok"
	if bad != 0 {
		verdict = fmt.Sprintf("LOOKUP-DEPENDS-ON-EARLIER-LOOKUPS %d sequences, first: %s", bad, first)
	}
	o.Add("lookup sequences", verdict, "expect", "ok", "lookup sequences")
}

// c17NodeDialectChanged: a dialect is examined every time a node is created with it: after a first
// node, the application adds a duplicate id (or a malformed struct) to the same dialect value; the
// second node is refused.
func c17NodeDialectChanged(o *hx.Out) {
	mk := func(d *dialect.Dialect) string {
		n, err := gomavlib.NewNode(gomavlib.NodeConf{Endpoints: []gomavlib.EndpointConf{gomavlib.EndpointCustom{ReadWriteCloser: scn.NewPipe("c17")}},
			Dialect: d, OutVersion: gomavlib.V2, OutSystemID: 10, HeartbeatDisable: true})
		if err != nil {
			return "refused"
		}
		go func() {
			for range n.Events() {
			}
		}()
		n.Close()
		return "accepted"
	}
	for _, extra := range []message.Message{&MessageUserARedefined{}, &MessageUserBadType{}} {
		d := &dialect.Dialect{Version: 3, Messages: []message.Message{&MessageUserA{}, &MessageUserB{}}}
		r1 := mk(d)
		d.Messages = append(d.Messages, extra) // a second message with id 50001 / a malformed struct
		r2 := mk(d)
		o.Add("dialect changed between two nodes", r1+" "+r2, "expect", "accepted refused", "node dialect changed: "+reflect.TypeOf(extra).Elem().Name())
	}
}
