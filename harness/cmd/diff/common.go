package main

import (
	"bytes"
	"fmt"
	"math/rand"
	"reflect"
	"strconv"

	"github.com/bluenviron/gomavlib/v3/pkg/dialect"
	"github.com/bluenviron/gomavlib/v3/pkg/frame"
	"github.com/bluenviron/gomavlib/v3/pkg/message"

	"verifharness/hx"
)

// defineDialect emits the def lines of a dialect and returns its initialised ReadWriter.
// The implementation's answer to a def line is "ok crc sizeNormal? ..." restricted to what the
// public API exposes: the CRC_EXTRA.
func defineDialect(o *hx.Out, name string, d *dialect.Dialect) *dialect.ReadWriter {
	for _, m := range d.Messages {
		mrw := &message.ReadWriter{Message: m}
		impl := hx.Safe(func() string {
			if err := mrw.Initialize(); err != nil {
				return "err"
			}
			return "ok " + strconv.Itoa(int(mrw.CRCExtra()))
		})
		o.Add("def", impl, "def", name, strconv.FormatUint(uint64(m.GetID()), 10),
			hx.GoStruct(reflect.TypeOf(m).Elem()))
	}
	drw := &dialect.ReadWriter{Dialect: d}
	if err := drw.Initialize(); err != nil {
		panic(err)
	}
	return drw
}

func shipped(name string) *dialect.Dialect {
	for _, nd := range hx.Shipped() {
		if nd.Name == name {
			return nd.D
		}
	}
	panic("no dialect " + name)
}

// writeFrame marshals a frame through frame.Writer.Write into bytes (nil on error).
func writeFrame(drw *dialect.ReadWriter, fr frame.Frame) ([]byte, error) {
	var buf bytes.Buffer
	w := &frame.Writer{ByteWriter: &buf, DialectRW: drw}
	if err := w.Initialize(); err != nil {
		return nil, err
	}
	if err := w.Write(fr); err != nil {
		return nil, err
	}
	return buf.Bytes(), nil
}

// validFrame builds a frame around msg with a correct checksum (and signature when key != nil).
func validFrame(r *rand.Rand, drw *dialect.ReadWriter, msg message.Message, v2 bool, key *frame.V2Key) frame.Frame {
	mrw := drw.GetMessage(msg.GetID())
	raw := mrw.Write(msg, v2)
	if !v2 {
		f := &frame.V1Frame{SequenceNumber: byte(r.Intn(256)), SystemID: byte(r.Intn(256)),
			ComponentID: byte(r.Intn(256)), Message: raw}
		f.Checksum = f.GenerateChecksum(mrw.CRCExtra())
		return f
	}
	f := &frame.V2Frame{SequenceNumber: byte(r.Intn(256)), SystemID: byte(r.Intn(256)),
		ComponentID: byte(r.Intn(256)), CompatibilityFlag: byte(r.Intn(256)), Message: raw}
	if key != nil {
		f.IncompatibilityFlag = 1
		f.SignatureLinkID = byte(r.Intn(256))
		f.SignatureTimestamp = r.Uint64() & 0xffffffffffff
	}
	f.Checksum = f.GenerateChecksum(mrw.CRCExtra())
	if key != nil {
		f.Signature = f.GenerateSignature(key)
	}
	return f
}

func splitRandom(r *rand.Rand, b []byte) []hx.Chunk {
	var cs []hx.Chunk
	for len(b) > 0 {
		n := 1 + r.Intn(len(b))
		if r.Intn(3) == 0 {
			n = 1
		}
		cs = append(cs, hx.Chunk{Data: append([]byte(nil), b[:n]...)})
		b = b[n:]
	}
	return cs
}

func one(b []byte) []hx.Chunk {
	if len(b) == 0 {
		return nil
	}
	return []hx.Chunk{{Data: b}}
}

func u(x uint64) string { return strconv.FormatUint(x, 10) }

var _ = fmt.Sprint

// manualWire lays a frame with a raw message out by hand (independent of frame.Writer).
func manualWire(fr frame.Frame) []byte {
	raw := fr.GetMessage().(*message.MessageRaw)
	switch f := fr.(type) {
	case *frame.V1Frame:
		b := []byte{0xFE, byte(len(raw.Payload)), f.SequenceNumber, f.SystemID, f.ComponentID, byte(raw.ID)}
		b = append(b, raw.Payload...)
		return append(b, byte(f.Checksum), byte(f.Checksum>>8))
	case *frame.V2Frame:
		b := []byte{0xFD, byte(len(raw.Payload)), f.IncompatibilityFlag, f.CompatibilityFlag, f.SequenceNumber, f.SystemID, f.ComponentID,
			byte(raw.ID), byte(raw.ID >> 8), byte(raw.ID >> 16)}
		b = append(b, raw.Payload...)
		b = append(b, byte(f.Checksum), byte(f.Checksum>>8))
		if f.IncompatibilityFlag&1 != 0 {
			b = append(b, f.SignatureLinkID)
			for i := 0; i < 6; i++ {
				b = append(b, byte(f.SignatureTimestamp>>(8*uint(i))))
			}
			b = append(b, f.Signature[:]...)
		}
		return b
	}
	return nil
}

// refusedThenAccepted builds streams in which a frame the reader parses completely and then refuses
// (a signed v2 frame with a wrong checksum, a v1 frame with a wrong checksum) is followed by valid
// unsigned frames: nothing of the refused frame may show in the frames returned after it.
func refusedThenAccepted(r *rand.Rand, d *dialect.Dialect, drw *dialect.ReadWriter, n int) [][]byte {
	key := frame.NewV2Key([]byte("some sender's key"))
	var out [][]byte
	for i := 0; i < n; i++ {
		msg := func() message.Message { return hx.RandMessage(r, d.Messages[r.Intn(len(d.Messages))], 2) }
		signed, _ := writeFrame(drw, validFrame(r, drw, msg(), true, key))
		unsigned, _ := writeFrame(drw, validFrame(r, drw, msg(), true, nil))
		v1ok, _ := writeFrame(drw, validFrame(r, drw, msg(), false, nil))
		v1bad, _ := writeFrame(drw, validFrame(r, drw, msg(), false, nil))
		if signed == nil || unsigned == nil || v1ok == nil || v1bad == nil {
			continue
		}
		signed[len(signed)-15] ^= 1 << uint(r.Intn(8)) // low byte of the checksum, before the 13-byte signature block
		v1bad[len(v1bad)-1] ^= 0x10
		var stream []byte
		switch i % 3 {
		case 0:
			stream = append(append(append([]byte(nil), signed...), unsigned...), v1ok...)
		case 1:
			stream = append(append(append(append([]byte(nil), unsigned...), signed...), unsigned...), signed...)
			stream = append(stream, unsigned...)
		default:
			stream = append(append(append(append([]byte(nil), v1bad...), v1ok...), signed...), v1ok...)
			stream = append(stream, unsigned...)
		}
		out = append(out, stream)
	}
	return out
}
