package main

import (
	"bytes"
	"fmt"
	"github.com/bluenviron/gomavlib/v3"
	"github.com/bluenviron/gomavlib/v3/pkg/frame"
	"io"
	"math/rand"
	"reflect"
	"strings"
	"time"
	"verifharness/scn"

	"github.com/bluenviron/gomavlib/v3/pkg/dialect"
	"github.com/bluenviron/gomavlib/v3/pkg/message"

	"github.com/bluenviron/gomavlib/v3/pkg/x25"

	"verifharness/hx"
)

func init() { gens["C02"] = genC02 }

func x25sum(parts ...[]byte) string {
	h := x25.New()
	for _, p := range parts {
		h.Write(p)
	}
	return u(uint64(h.Sum16()))
}

func genC02(o *hx.Out, tier string) {
	defer c02DialectChanged(o)
	defer c02Reinitialize(o)
	r := hx.NewRand(2)
	// (a) the checksum step: every 2-byte prefix reaches a distinct register state (checked by
	// the driver: 65536 distinct sums), then one more byte.
	seen := map[string]bool{}
	for a := 0; a < 256; a++ {
		for b := 0; b < 256; b++ {
			p := []byte{byte(a), byte(b)}
			s := x25sum(p)
			seen[s] = true
			o.Add("x25-state", s, "x25", hx.Hex(p))
			if tier == "thorough" {
				for c := 0; c < 256; c++ {
					q := []byte{byte(a), byte(b), byte(c)}
					o.Add("x25-step", x25sum(p, q[2:]), "x25", hx.Hex(q))
				}
			} else {
				for k := 0; k < 3; k++ {
					q := []byte{byte(a), byte(b), byte(r.Intn(256))}
					o.Add("x25-step", x25sum(p, q[2:]), "x25", hx.Hex(q))
				}
			}
		}
	}
	if len(seen) != 65536 {
		o.Add("x25-bijection", fmt.Sprintf("states=%d", len(seen)), "x25", "00")
	}
	// any split
	for i := 0; i < 2000; i++ {
		n := r.Intn(300)
		p := make([]byte, n)
		r.Read(p)
		var parts [][]byte
		q := p
		for len(q) > 0 {
			k := 1 + r.Intn(len(q))
			parts = append(parts, q[:k])
			q = q[k:]
		}
		o.Add("x25-split", x25sum(parts...), "x25", hx.Hex(p))
		o.Add("x25-spec", x25sum(p), "crcspec", hx.Hex(p))
	}

	// (b) the gate, on the shipped common dialect and on a dialect of user-defined messages
	// (one-element arrays, one-character strings, extensions, enums, the 255-byte message)
	d := shipped("common")
	nmsg := 24
	if tier == "thorough" {
		nmsg = len(d.Messages)
	}
	c02Gate(o, r, "common", d, nmsg, 1)
	ud := &dialect.Dialect{Version: 3, Messages: append(append([]message.Message(nil), userStructs[:11]...), userOne...)}
	c02Gate(o, r, "user02", ud, len(ud.Messages), 6)
}

func c02Gate(o *hx.Out, r *rand.Rand, dname string, d *dialect.Dialect, nmsg int, thin int) {
	drw := defineDialect(o, dname, d)
	perm := r.Perm(len(d.Messages))
	for i := 0; i < nmsg; i++ {
		proto := d.Messages[perm[i]]
		// the gate needs the dialect's codec of the message: every message of the dialect has one
		if drw.GetMessage(proto.GetID()) == nil {
			o.Add("gate-codec", fmt.Sprintf("NO-CODEC-FOR-A-MESSAGE-OF-THE-DIALECT id=%d", proto.GetID()), "expect", "ok", fmt.Sprintf("codec of %s id %d", dname, proto.GetID()))
			continue
		}
		for _, v2 := range []bool{false, true} {
			msg := hx.RandMessage(r, proto, 2)
			if !v2 && msg.GetID() > 255 {
				continue
			}
			fr := validFrame(r, drw, msg, v2, nil)
			bs, err := writeFrame(drw, fr)
			if err != nil {
				continue
			}
			add := func(class string, b []byte) {
				cs := one(b)
				o.AddLater(class, hx.ReadAllLater(cs, drw, nil, nil), "fread", dname, "-", hx.ChunksText(cs))
			}
			add("gate-valid", bs)
			// the gate must not depend on how the transport splits the frame: every two-piece split
			// of the valid frame, and a random segmentation of every fourth damaged variant
			for cut := 1; cut < len(bs); cut++ {
				cs := []hx.Chunk{{Data: bs[:cut]}, {Data: bs[cut:]}}
				o.AddLater("gate-valid-split", hx.ReadAllLater(cs, drw, nil, nil), "fread", dname, "-", hx.ChunksText(cs))
			}
			nadd := 0
			addv := func(class string, b []byte) {
				nadd++
				if nadd%4 == 0 {
					cs := splitRandom(r, b)
					o.AddLater(class+"-split", hx.ReadAllLater(cs, drw, nil, nil), "fread", dname, "-", hx.ChunksText(cs))
					return
				}
				add(class, b)
			}
			for bit := 0; bit < len(bs)*8; bit += 1 + r.Intn(thin) {
				c := append([]byte(nil), bs...)
				c[bit/8] ^= 1 << uint(bit%8)
				addv("gate-bitflip", c)
			}
			for k := 0; k < 20; k++ {
				c := append([]byte(nil), bs...)
				c[r.Intn(len(c))] = byte(r.Intn(256))
				addv("gate-subst", c)
			}
			for k := 0; k < 20; k++ {
				c := append([]byte(nil), bs...)
				for j := 0; j < 2+r.Intn(4); j++ {
					c[r.Intn(len(c))] ^= byte(1 + r.Intn(255))
				}
				addv("gate-multi", c)
			}
		}
	}
}

// c02DialectChanged: the gate of a node is the gate of the dialect the node was given when it was
// created. An application creates a node with a dialect value, closes it, changes the messages of
// that same value (redefines one, adds one) and creates another node with it: the second node checks
// frames against the definitions it was given, not against those of the first node.
func c02DialectChanged(o *hx.Out) {
	r := hx.NewRand(202)
	d := &dialect.Dialect{Version: 3, Messages: []message.Message{&MessageUserA{}, &MessageUserB{}}}
	run := func(tag string, feed [][]byte, want string) {
		p := scn.NewPipe("c02")
		node, err := gomavlib.NewNode(gomavlib.NodeConf{Endpoints: []gomavlib.EndpointConf{gomavlib.EndpointCustom{ReadWriteCloser: p}},
			Dialect: d, OutVersion: gomavlib.V2, OutSystemID: 10, HeartbeatDisable: true})
		if err != nil {
			o.Add("dialect value changed between two nodes", "NODE-FAILED "+err.Error(), "expect", want, tag)
			return
		}
		var evs []string
		done := make(chan struct{})
		go func() {
			defer close(done)
			for evt := range node.Events() {
				switch e := evt.(type) {
				case *gomavlib.EventFrame:
					evs = append(evs, "F:"+reflect.TypeOf(e.Message()).Elem().Name())
				case *gomavlib.EventParseError:
					evs = append(evs, "P")
				}
			}
		}()
		time.Sleep(100 * time.Millisecond)
		for _, b := range feed {
			p.Feed(b)
		}
		time.Sleep(300 * time.Millisecond)
		node.Close()
		<-done
		o.Add("dialect value changed between two nodes", strings.Join(evs, " "), "expect", want, tag)
	}
	frameOf := func(dd *dialect.Dialect, m message.Message) []byte {
		drw := &dialect.ReadWriter{Dialect: dd}
		if err := drw.Initialize(); err != nil {
			return nil
		}
		bs, _ := writeFrame(drw, validFrame(r, drw, m, true, nil))
		return bs
	}
	oldA := frameOf(d, hx.RandMessage(r, &MessageUserA{}, 1))
	run("first node", [][]byte{oldA}, "F:MessageUserA")
	// the application redefines message 50001 and adds a message
	d.Messages = []message.Message{&MessageUserARedefined{}, &MessageUserB{}, &MessageUserC{}}
	newA := frameOf(d, hx.RandMessage(r, &MessageUserARedefined{}, 1))
	newC := frameOf(d, hx.RandMessage(r, &MessageUserC{}, 1))
	damagedC := append([]byte(nil), newC...)
	damagedC[len(damagedC)-1] ^= 0x40
	run("second node, same dialect value with other messages", [][]byte{newA, oldA, newC, damagedC},
		"F:MessageUserARedefined P F:MessageUserC P")
}

// c02Reinitialize: a frame.ReadWriter value initialised a second time (another stream, another
// dialect, or a dialect where there was none) gates by what it was given the second time.
func c02Reinitialize(o *hx.Out) {
	r := hx.NewRand(203)
	dA := &dialect.Dialect{Version: 3, Messages: []message.Message{&MessageUserA{}, &MessageUserB{}}}
	dB := &dialect.Dialect{Version: 3, Messages: []message.Message{&MessageUserARedefined{}, &MessageUserC{}}}
	rwA := &dialect.ReadWriter{Dialect: dA}
	rwB := &dialect.ReadWriter{Dialect: dB}
	if rwA.Initialize() != nil || rwB.Initialize() != nil {
		return
	}
	frameB, _ := writeFrame(rwB, validFrame(r, rwB, hx.RandMessage(r, &MessageUserARedefined{}, 1), true, nil))
	frameC, _ := writeFrame(rwB, validFrame(r, rwB, hx.RandMessage(r, &MessageUserC{}, 1), true, nil))
	frameA, _ := writeFrame(rwA, validFrame(r, rwA, hx.RandMessage(r, &MessageUserA{}, 1), true, nil))
	damaged := append([]byte(nil), frameC...)
	damaged[len(damaged)-1] ^= 0x04
	stream := append(append(append(append([]byte(nil), frameB...), frameA...), frameC...), damaged...)
	for _, first := range []*dialect.ReadWriter{nil, rwA} {
		var sink bytes.Buffer
		rw := &frame.ReadWriter{ByteReadWriter: struct {
			io.Reader
			io.Writer
		}{bytes.NewReader(frameA), &sink}, DialectRW: first}
		if err := rw.Initialize(); err != nil {
			continue
		}
		rw.Read() //nolint:errcheck
		// second initialisation: another stream, dialect B
		rw.ByteReadWriter = struct {
			io.Reader
			io.Writer
		}{bytes.NewReader(stream), &sink}
		rw.DialectRW = rwB
		var evs []string
		if err := rw.Initialize(); err != nil {
			evs = append(evs, "REINIT-FAILED")
		} else {
			for i := 0; i < 6; i++ {
				fr, err := rw.Read()
				if err == io.EOF {
					break
				}
				if err != nil {
					evs = append(evs, "P")
					continue
				}
				evs = append(evs, "F:"+reflect.TypeOf(fr.GetMessage()).Elem().Name())
			}
		}
		tag := "no dialect first"
		if first != nil {
			tag = "another dialect first"
		}
		o.Add("frame.ReadWriter initialised twice", strings.Join(evs, " "), "expect", "F:MessageUserARedefined P F:MessageUserC P", tag)
	}
}
