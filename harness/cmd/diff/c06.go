package main

import (
	"github.com/bluenviron/gomavlib/v3/pkg/frame"
	"github.com/bluenviron/gomavlib/v3/pkg/message"

	"verifharness/hx"
)

func init() { gens["C06"] = genC06 }

func genC06(o *hx.Out, tier string) {
	r := hx.NewRand(6)
	d := shipped("common")
	drw := defineDialect(o, "common", d)
	nfr := 14
	if tier == "thorough" {
		nfr = 120
	}
	mkKey := func() *frame.V2Key {
		b := make([]byte, 32)
		r.Read(b)
		if r.Intn(6) == 0 {
			b = make([]byte, 32)
		}
		return frame.NewV2Key(b)
	}
	// a key is a copy of the bytes it was made from: what the caller does with its own buffer
	// afterwards (wipes it, reuses it) does not change the key
	for i := 0; i < 6; i++ {
		orig := make([]byte, 32)
		r.Read(orig)
		good := frame.NewV2Key(append([]byte(nil), orig...))
		buf := append([]byte(nil), orig...)
		key := frame.NewV2Key(buf)
		for j := range buf {
			buf[j] = byte(i * j) // the caller's buffer is used for something else
		}
		f := randFrame(r, true, true).(*frame.V2Frame)
		f.Signature = f.GenerateSignature(good)
		if bs, err := writeFrame(nil, f); err == nil {
			cs := one(bs)
			o.AddLater("key made from a buffer that is reused afterwards", hx.ReadAllLater(cs, nil, key, nil), "fread", "-", hx.Hex(orig), hx.ChunksText(cs))
		}
	}
	for i := 0; i < nfr; i++ {
		key := mkKey()
		var fr frame.Frame
		withDialect := i%2 == 0
		if withDialect {
			proto := d.Messages[r.Intn(len(d.Messages))]
			fr = validFrame(r, drw, hx.RandMessage(r, proto, 2), true, key)
		} else {
			f := randFrame(r, true, true).(*frame.V2Frame)
			if i == 1 || i%16 == 5 {
				// the largest frame: 255-byte payload, signed (280 bytes on the wire)
				p := make([]byte, 255)
				r.Read(p)
				p[254] |= 1
				f.Message = &message.MessageRaw{ID: f.Message.GetID(), Payload: p}
				f.Checksum = f.GenerateChecksum(0)
			}
			f.Signature = f.GenerateSignature(key)
			fr = f
		}
		bs, err := writeFrame(drw, fr)
		if err != nil {
			continue
		}
		dn := "-"
		rdrw := drw
		if !withDialect {
			rdrw = nil
		} else {
			dn = "common"
		}
		add := func(class string, b []byte, k *frame.V2Key) {
			cs := one(b)
			o.AddLater(class, hx.ReadAllLater(cs, rdrw, k, nil), "fread", dn, hx.Hex(k[:]), hx.ChunksText(cs))
		}
		add("signed-valid", bs, key)
		nbits := len(bs) * 8
		first := 0
		if len(bs) > 200 && tier != "thorough" {
			first = nbits - 16 // large frames: only the last two signature bytes in the quick tier
		}
		for bit := first; bit < nbits; bit++ {
			c := append([]byte(nil), bs...)
			c[bit/8] ^= 1 << uint(bit%8)
			add("signed-bitflip", c, key)
		}
		add("wrong-key", bs, mkKey())
		k2 := *key
		k2[r.Intn(32)] ^= 1 << uint(r.Intn(8))
		add("wrong-key-1bit", bs, &k2)
		// unsigned v2 and v1 versions of the same message
		f2 := *(fr.(*frame.V2Frame))
		f2.IncompatibilityFlag = 0
		f2.Signature = nil
		if withDialect {
			f2.Checksum = f2.GenerateChecksum(drw.GetMessage(f2.Message.GetID()).CRCExtra())
		}
		if b2, err := writeFrame(drw, &f2); err == nil {
			add("unsigned-v2", b2, key)
		}
		if raw, ok := f2.Message.(*message.MessageRaw); ok && raw.ID < 256 {
			f1 := &frame.V1Frame{SequenceNumber: f2.SequenceNumber, SystemID: f2.SystemID, ComponentID: f2.ComponentID,
				Message: raw, Checksum: f2.Checksum}
			if b1, err := writeFrame(nil, f1); err == nil {
				add("v1", b1, key)
			}
		}
	}
	// writers with an outgoing key
	nh := 30
	if tier == "thorough" {
		nh = 300
	}
	for i := 0; i < nh; i++ {
		c := wconf{v2: true, sys: byte(1 + r.Intn(255)), comp: byte(r.Intn(256)), link: byte(r.Intn(256)),
			key: mkKey(), dname: "common", drw: drw}
		var msgs []message.Message
		for j := 0; j < 1+r.Intn(6); j++ {
			msgs = append(msgs, hx.RandMessage(r, d.Messages[r.Intn(len(d.Messages))], 2))
		}
		if i%5 == 1 {
			// the largest frame a keyed writer can emit
			p := make([]byte, 255)
			r.Read(p)
			p[254] |= 1
			msgs = append(msgs, &message.MessageRaw{ID: d.Messages[r.Intn(len(d.Messages))].GetID(), Payload: p})
			msgs = append(msgs, hx.RandMessage(r, d.Messages[r.Intn(len(d.Messages))], 2))
		}
		legacy := i%3 == 0
		impl, ops := runWrites(c, msgs, legacy)
		class := "keyed-streamwriter"
		if legacy {
			class = "keyed-frame.Writer.WriteMessage"
		}
		o.Add(class, impl, append(append([]string{"swrite"}, c.fields()...), ops)...)
	}
}
