package main

import (
	"reflect"
	"strconv"

	"github.com/bluenviron/gomavlib/v3/pkg/message"

	"verifharness/hx"
)

func init() { gens["C03"] = genC03 }

// distinctTypes lists every distinct message struct type of the shipped dialects.
func distinctTypes() []message.Message {
	seen := map[reflect.Type]bool{}
	var out []message.Message
	for _, nd := range hx.Shipped() {
		for _, m := range nd.D.Messages {
			t := reflect.TypeOf(m)
			if !seen[t] {
				seen[t] = true
				out = append(out, m)
			}
		}
	}
	return out
}

func implInit(m message.Message) (*message.ReadWriter, string) {
	mrw := &message.ReadWriter{Message: m}
	res := hx.Safe(func() string {
		if err := mrw.Initialize(); err != nil {
			return "err"
		}
		return "ok " + strconv.Itoa(int(mrw.CRCExtra()))
	})
	if res == "err" || res == "panic" {
		return nil, res
	}
	return mrw, res
}

func implWriteMsg(mrw *message.ReadWriter, m message.Message, v2 bool) string {
	return hx.Safe(func() string { return "ok " + hx.Hex(mrw.Write(m, v2).Payload) })
}

func implReadMsg(mrw *message.ReadWriter, payload []byte, v2 bool) string {
	return hx.Safe(func() string {
		m, err := mrw.Read(&message.MessageRaw{ID: 0, Payload: payload}, v2)
		if err != nil {
			return "err"
		}
		return "ok " + hx.Value(m)
	})
}

// probes: each field (and each array element) in turn set to a distinctive pattern, all
// others zero: reveals offset, width and order of every field.
func probeMessages(proto message.Message) []message.Message {
	t := reflect.TypeOf(proto).Elem()
	var out []message.Message
	set := func(v reflect.Value, k int) {
		pat := uint64(0x0102030405060708) + uint64(k)*0x1111111111111111
		switch v.Kind() {
		case reflect.String:
			v.SetString("Ab" + strconv.Itoa(k))
		case reflect.Int8, reflect.Int16, reflect.Int32, reflect.Int64:
			switch v.Kind() {
			case reflect.Int8:
				v.SetInt(int64(int8(pat)))
			case reflect.Int16:
				v.SetInt(int64(int16(pat)))
			case reflect.Int32:
				v.SetInt(int64(int32(pat)))
			default:
				v.SetInt(int64(pat))
			}
		case reflect.Uint8:
			v.SetUint(uint64(uint8(pat)))
		case reflect.Uint16:
			v.SetUint(uint64(uint16(pat)))
		case reflect.Uint32:
			v.SetUint(uint64(uint32(pat)))
		case reflect.Uint64:
			v.SetUint(pat)
		case reflect.Float32:
			v.SetFloat(1.5 + float64(k))
		case reflect.Float64:
			v.SetFloat(-2.25 - float64(k))
		}
	}
	for i := 0; i < t.NumField(); i++ {
		nv := reflect.New(t)
		f := nv.Elem().Field(i)
		if f.Kind() == reflect.Array {
			idxs := []int{0, f.Len() - 1, f.Len() / 2}
			for _, j := range idxs {
				if j < 0 || j >= f.Len() {
					continue
				}
				nv2 := reflect.New(t)
				set(nv2.Elem().Field(i).Index(j), j)
				out = append(out, nv2.Interface().(message.Message))
			}
			for j := 0; j < f.Len(); j++ {
				set(f.Index(j), j)
			}
		} else {
			set(f, i)
		}
		out = append(out, nv.Interface().(message.Message))
	}
	return out
}

func genC03(o *hx.Out, tier string) {
	r := hx.NewRand(3)
	types := append(append(distinctTypes(), userStructs...), userOne...)
	for _, proto := range types {
		gs := hx.GoStruct(reflect.TypeOf(proto).Elem())
		mrw, res := implInit(proto)
		o.Add("crc-extra", res, "crc", gs)
		if mrw == nil {
			continue
		}
		msgs := probeMessages(proto)
		msgs = append(msgs, hx.RandMessage(r, proto, 0), hx.RandMessage(r, proto, 1))
		nr := 2
		if tier == "thorough" {
			nr = 20
		}
		for k := 0; k < nr; k++ {
			msgs = append(msgs, hx.RandMessage(r, proto, 2))
		}
		for _, m := range msgs {
			for _, v2 := range []bool{true, false} {
				w := implWriteMsg(mrw, m, v2)
				o.Add("encode", w, "mwrite", gs, b2s(v2), hx.Value(m))
				if len(w) > 3 {
					// the same payload kept as the codec returned it and rendered later
					kept := mrw.Write(m, v2)
					o.AddLater("encode, rendered later", func() string { return "ok " + hx.Hex(kept.Payload) }, "mwrite", gs, b2s(v2), hx.Value(m))
				}
				// decoding reads the same layout: decode what was encoded, and a random
				// payload of the full size
				if len(w) > 3 {
					p := mrw.Write(m, v2).Payload
					o.Add("decode-encoded", implReadMsg(mrw, p, v2), "mread", gs, b2s(v2), hx.Hex(p))
				}
			}
		}
		full := mrw.Write(hx.RandMessage(r, proto, 1), true).Payload
		for k := 0; k < 2; k++ {
			p := make([]byte, len(full))
			r.Read(p)
			o.Add("decode-random", implReadMsg(mrw, p, true), "mread", gs, "1", hx.Hex(p))
		}
	}
}
