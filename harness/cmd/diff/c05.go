package main

import (
	"fmt"
	"strings"

	"github.com/bluenviron/gomavlib/v3/pkg/dialect"
	"github.com/bluenviron/gomavlib/v3/pkg/frame"
	"github.com/bluenviron/gomavlib/v3/pkg/message"

	"verifharness/hx"
)

func init() { gens["C05"] = genC05 }

// readAllC renders results with the number of stream items each call consumed.
func readAllC(cs []hx.Chunk, drw *dialect.ReadWriter, key *frame.V2Key) string {
	var per []int
	res := hx.ReadAll(cs, drw, key, &per)
	parts := strings.Split(res, " ")
	for i := range parts {
		if i < len(per) {
			parts[i] = fmt.Sprintf("%s/%d", parts[i], per[i])
		}
	}
	return strings.Join(parts, " ")
}

// segment splits b according to the bits of mask (bit i set = cut after byte i).
func segment(b []byte, mask uint) []hx.Chunk {
	var cs []hx.Chunk
	start := 0
	for i := 0; i < len(b); i++ {
		if i == len(b)-1 || mask&(1<<uint(i)) != 0 {
			cs = append(cs, hx.Chunk{Data: append([]byte(nil), b[start:i+1]...)})
			start = i + 1
		}
	}
	return cs
}

// withFault inserts a transport error after off bytes.
func withFault(cs []hx.Chunk, off int, code int) []hx.Chunk {
	var out []hx.Chunk
	done := false
	pos := 0
	for _, c := range cs {
		if !done && off >= pos && off < pos+len(c.Data) {
			k := off - pos
			if k > 0 {
				out = append(out, hx.Chunk{Data: c.Data[:k]})
			}
			out = append(out, hx.Chunk{Err: code})
			out = append(out, hx.Chunk{Data: c.Data[k:]})
			done = true
		} else {
			out = append(out, c)
		}
		pos += len(c.Data)
	}
	if !done {
		out = append(out, hx.Chunk{Err: code})
	}
	return out
}

func genC05(o *hx.Out, tier string) {
	r := hx.NewRand(5)
	d := shipped("minimal")
	drw := defineDialect(o, "minimal", d)
	alphabet := []byte{0xfe, 0xfd, 0x00, 0x01, 0x02, 0xff}
	maxLen := 5
	if tier == "thorough" {
		maxLen = 7
	}
	emit := func(class string, cs []hx.Chunk, withD bool) {
		dn := "-"
		var rw *dialect.ReadWriter
		if withD {
			dn = "minimal"
			rw = drw
		}
		o.Add(class, readAllC(cs, rw, nil), "freadc", dn, "-", hx.ChunksText(cs))
	}
	// exhaustive small-alphabet streams x all segmentations (random ones above length 5)
	var rec func(prefix []byte)
	rec = func(prefix []byte) {
		if n := len(prefix); n > 0 {
			if n <= 5 {
				for mask := uint(0); mask < 1<<uint(n-1); mask++ {
					emit(fmt.Sprintf("alphabet len=%d all-segmentations", n), segment(prefix, mask), false)
				}
			} else {
				for k := 0; k < 3; k++ {
					emit(fmt.Sprintf("alphabet len=%d random-segmentations", n), segment(prefix, uint(r.Intn(1<<uint(n-1)))), false)
				}
			}
			if n <= 4 {
				for off := 0; off <= n; off++ {
					emit("alphabet with fault", withFault(segment(prefix, uint(r.Intn(1<<uint(n-1)))), off, 2+r.Intn(3)), false)
				}
			}
		}
		if len(prefix) == maxLen {
			return
		}
		for _, a := range alphabet {
			rec(append(append([]byte(nil), prefix...), a))
		}
	}
	rec(nil)

	// a completely parsed, then refused frame followed by valid ones on the same reader
	for _, st := range refusedThenAccepted(r, d, drw, 40) {
		emit("refused then accepted", one(st), true)
		emit("refused then accepted", splitRandom(r, st), true)
	}
	// structured streams: valid / truncated / corrupted frames with noise
	key := frame.NewV2Key([]byte("k"))
	ns := 150
	if tier == "thorough" {
		ns = 3000
	}
	for i := 0; i < ns; i++ {
		var all []byte
		withD := i%2 == 0
		nfr := 1 + r.Intn(4)
		for j := 0; j < nfr; j++ {
			for k := r.Intn(4); k > 0; k-- { // junk, sometimes containing markers
				if r.Intn(5) == 0 {
					all = append(all, alphabet[r.Intn(2)])
				} else {
					all = append(all, byte(r.Intn(253)))
				}
			}
			var fr frame.Frame
			if withD && r.Intn(5) == 0 {
				// a frame of a dialect message with a correct checksum whose payload has the wrong
				// length (v1: any other length; v2: longer than the message): a parse error, not a
				// transport error, and the frames after it are still read
				proto := d.Messages[r.Intn(len(d.Messages))]
				full := len(drw.GetMessage(proto.GetID()).Write(hx.RandMessage(r, proto, 1), true).Payload)
				n := full + 1 + r.Intn(3)
				v2 := r.Intn(2) == 0
				if !v2 && r.Intn(2) == 0 && full > 1 {
					n = 1 + r.Intn(full-1)
				}
				if n > 255 {
					n = 255
				}
				pl := make([]byte, n)
				r.Read(pl)
				pl[n-1] |= 1
				raw := &message.MessageRaw{ID: proto.GetID(), Payload: pl}
				if v2 {
					f := &frame.V2Frame{SequenceNumber: byte(r.Intn(256)), SystemID: byte(r.Intn(256)), ComponentID: byte(r.Intn(256)), Message: raw}
					f.Checksum = f.GenerateChecksum(drw.GetMessage(proto.GetID()).CRCExtra())
					fr = f
				} else {
					f := &frame.V1Frame{SequenceNumber: byte(r.Intn(256)), SystemID: byte(r.Intn(256)), ComponentID: byte(r.Intn(256)), Message: raw}
					f.Checksum = f.GenerateChecksum(drw.GetMessage(proto.GetID()).CRCExtra())
					fr = f
				}
			} else if withD && r.Intn(2) == 0 {
				fr = validFrame(r, drw, hx.RandMessage(r, d.Messages[r.Intn(len(d.Messages))], 2), r.Intn(2) == 0, nil)
			} else {
				fr = randFrame(r, r.Intn(2) == 0, r.Intn(2) == 0)
				if f2, ok := fr.(*frame.V2Frame); ok && f2.Signature != nil {
					f2.Signature = f2.GenerateSignature(key)
				}
			}
			bs, err := writeFrame(drw, fr)
			if err != nil {
				continue
			}
			switch r.Intn(6) {
			case 0: // truncated
				bs = bs[:r.Intn(len(bs))]
			case 1: // corrupted
				bs[r.Intn(len(bs))] ^= byte(1 + r.Intn(255))
			}
			all = append(all, bs...)
		}
		if len(all) == 0 {
			continue
		}
		segs := [][]hx.Chunk{one(all), splitRandom(r, all), splitRandom(r, all)}
		var ones []hx.Chunk
		for _, b := range all {
			ones = append(ones, hx.Chunk{Data: []byte{b}})
		}
		segs = append(segs, ones)
		for _, cs := range segs {
			emit("structured no-fault", cs, withD)
		}
		// the same stream through a keyed reader (v1, unsigned and wrongly signed frames are parse
		// errors that must still consume the whole frame)
		{
			dn := "-"
			var rw *dialect.ReadWriter
			if withD {
				dn = "minimal"
				rw = drw
			}
			for _, cs := range [][]hx.Chunk{one(all), splitRandom(r, all)} {
				o.Add("structured keyed reader", readAllC(cs, rw, key), "freadc", dn, hx.Hex(key[:]), hx.ChunksText(cs))
			}
		}
		// a transport error at every byte offset (quick: sampled offsets for long streams)
		step := 1
		if tier != "thorough" && len(all) > 60 {
			step = len(all) / 60
		}
		for off := 0; off <= len(all); off += step {
			emit("structured fault-at-offset", withFault(splitRandom(r, all), off, 2+r.Intn(5)), withD)
		}
	}
}
