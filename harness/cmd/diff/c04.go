package main

import (
	"bytes"
	"reflect"

	"github.com/bluenviron/gomavlib/v3/pkg/message"

	"verifharness/hx"
)

func init() { gens["C04"] = genC04 }

func genC04(o *hx.Out, tier string) {
	r := hx.NewRand(4)
	types := append(distinctTypes(), userStructs[:11]...)
	allLens := map[int]bool{}
	if tier != "thorough" {
		for _, i := range r.Perm(len(types))[:12] {
			allLens[i] = true
		}
	}
	for ti, proto := range types {
		gs := hx.GoStruct(reflect.TypeOf(proto).Elem())
		mrw, _ := implInit(proto)
		if mrw == nil {
			continue
		}
		// round trip of boundary / random values in both versions
		nv := 6
		if tier == "thorough" {
			nv = 40
		}
		var held *message.MessageRaw // what an earlier Write returned: the caller may keep it
		var heldMsg message.Message
		heldV2 := false
		for k := 0; k < nv; k++ {
			m := hx.RandMessage(r, proto, 2)
			for _, v2 := range []bool{true, false} {
				raw := mrw.Write(m, v2)
				// rendered later: the payload handed out must still be what it was after other calls
				o.AddLater("encode", func() string { return "ok " + hx.Hex(raw.Payload) }, "mwrite", gs, b2s(v2), hx.Value(m))
				o.Add("roundtrip", implReadMsg(mrw, raw.Payload, v2), "mread", gs, b2s(v2), hx.Hex(raw.Payload))
				// the caller reads from a buffer of its own and uses that buffer for something else
				// afterwards: the message it was given is rendered later and must not have changed
				{
					own := append([]byte(nil), raw.Payload...)
					want := hx.Hex(own)
					dec, err := mrw.Read(&message.MessageRaw{ID: 0, Payload: own}, v2)
					for i := range own {
						own[i] = byte(0x41 + i%26)
					}
					if err == nil {
						o.AddLater("decode, the buffer reused afterwards", func() string { return "ok " + hx.Value(dec) }, "mread", gs, b2s(v2), want)
					}
				}
				if held != nil {
					// the result of the previous Write, looked at again after this Write and this Read
					o.Add("encode, result kept across the next calls", "ok "+hx.Hex(held.Payload), "mwrite", gs, b2s(heldV2), hx.Value(heldMsg))
				}
				held, heldMsg, heldV2 = raw, m, v2
			}
		}
		// every payload length (sampled types in quick; boundary lengths for all)
		full := mrw.Write(hx.RandMessage(r, proto, 1), true).Payload
		base := len(mrw.Write(hx.RandMessage(r, proto, 1), false).Payload)
		ext := len(full)
		var lens []int
		if tier == "thorough" || allLens[ti] {
			for n := 0; n <= 256; n++ {
				lens = append(lens, n)
			}
			lens = append(lens, 300, 600)
		} else {
			lens = []int{0, 1, base - 1, base, base + 1, ext - 1, ext, ext + 1, 254, 255, 256, 300, 600}
		}
		for _, n := range lens {
			if n < 0 {
				continue
			}
			for fill := 0; fill < 3; fill++ {
				p := make([]byte, n)
				switch fill {
				case 1:
					for i := range p {
						p[i] = 0xff
					}
				case 2:
					r.Read(p)
				}
				for _, v2 := range []bool{true, false} {
					if !v2 && fill == 0 && n != base {
						continue
					}
					o.Add("decode-any-length", implReadMsg(mrw, p, v2), "mread", gs, b2s(v2), hx.Hex(p))
				}
			}
		}
		// the caller's buffer: payload is a prefix of a larger backing array filled with a sentinel
		for k := 0; k < 4; k++ {
			n := r.Intn(ext + 1)
			capx := n + r.Intn(ext+8)
			backing := bytes.Repeat([]byte{0xa5}, capx)
			r.Read(backing[:n])
			before := append([]byte(nil), backing...)
			for _, v2 := range []bool{true, false} {
				hx.Safe(func() string {
					mrw.Read(&message.MessageRaw{Payload: backing[:n:capx]}, v2) //nolint:errcheck
					return ""
				})
				o.Add("caller-buffer", hx.Hex(backing), "mreadbuf", gs, b2s(v2), hx.Hex(before), u(uint64(n)))
				copy(backing, before)
			}
		}
	}
}
