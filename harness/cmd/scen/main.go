// Command scen runs scenarios against a real gomavlib.Node and writes cases.txt (for the model
// driver) and impl.txt (what was observed), one line per case.
package main

import (
	"fmt"
	"os"

	"verifharness/hx"
)

type genFunc func(o *hx.Out, tier string)

var gens = map[string]genFunc{}

func main() {
	if len(os.Args) < 4 {
		fmt.Fprintln(os.Stderr, "usage: scen <property> <outdir> <quick|thorough>")
		os.Exit(2)
	}
	g, ok := gens[os.Args[1]]
	if !ok {
		fmt.Fprintln(os.Stderr, "unknown property", os.Args[1])
		os.Exit(2)
	}
	o := hx.NewOut(os.Args[2])
	g(o, os.Args[3])
	o.Close(os.Args[2])
	fmt.Printf("cases=%d\n", o.N)
}
