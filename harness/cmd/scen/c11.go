package main

import (
	"errors"
	"fmt"
	"io"
	"math/rand"
	"reflect"
	"runtime"
	"strconv"
	"strings"
	"sync"
	"time"

	"github.com/bluenviron/gomavlib/v3"
	"github.com/bluenviron/gomavlib/v3/pkg/dialect"
	"github.com/bluenviron/gomavlib/v3/pkg/dialects/minimal"
	"github.com/bluenviron/gomavlib/v3/pkg/frame"
	"github.com/bluenviron/gomavlib/v3/pkg/message"

	"verifharness/hx"
	"verifharness/scn"
)

func init() { gens["C11"] = genC11 }

// serialMsg builds a heartbeat carrying a serial number in CustomMode.
func serialMsg(serial int) message.Message {
	return &minimal.MessageHeartbeat{Type: 1, Autopilot: 2, BaseMode: 3, CustomMode: uint32(serial), SystemStatus: 4, MavlinkVersion: 3}
}

// serialOf extracts the serial from a decoded frame (-1 when it is not one of ours).
func serialOf(fr frame.Frame) int {
	if hb, ok := fr.GetMessage().(*minimal.MessageHeartbeat); ok {
		return int(hb.CustomMode)
	}
	return -1
}

// openChannels waits for the open event of every pipe and returns pipe index -> channel.
func openChannels(col *scn.Collector, pipes []*scn.Pipe) ([]*gomavlib.Channel, bool) {
	chs := make([]*gomavlib.Channel, len(pipes))
	ok := col.Wait(func() bool {
		n := 0
		for _, ch := range col.Channels() {
			for i, p := range pipes {
				if scn.PipeOf(ch) == p && chs[i] == nil {
					chs[i] = ch
				}
			}
		}
		for _, c := range chs {
			if c != nil {
				n++
			}
		}
		return n == len(pipes)
	})
	return chs, ok
}

type submission struct {
	serial  int
	kind    int // 0 MsgAll 1 MsgTo 2 MsgExcept 3 FrameAll 4 FrameTo 5 FrameExcept
	target  int // channel index, -1 foreign
	isFrame bool
	hdr     [3]byte // seq, sysid, compid of a forwarded frame
}

func (s submission) selects(c int) bool {
	switch s.kind % 3 {
	case 0:
		return true
	case 1:
		return s.target == c
	default:
		return s.target != c
	}
}

func joinInts(l []int) string {
	if len(l) == 0 {
		return "-"
	}
	var p []string
	for _, x := range l {
		p = append(p, strconv.Itoa(x))
	}
	return strings.Join(p, ",")
}

const markerSerial = 9999

// submit performs one Write* call.
func submit(node *gomavlib.Node, drw *dialect.ReadWriter, chs []*gomavlib.Channel, foreign *gomavlib.Channel, s submission) {
	var tgt *gomavlib.Channel
	if s.target >= 0 {
		tgt = chs[s.target]
	} else {
		tgt = foreign
	}
	if !s.isFrame {
		m := serialMsg(s.serial)
		switch s.kind {
		case 0:
			node.WriteMessageAll(m) //nolint:errcheck
		case 1:
			node.WriteMessageTo(tgt, m) //nolint:errcheck
		default:
			node.WriteMessageExcept(tgt, m) //nolint:errcheck
		}
		return
	}
	mrw := drw.GetMessage(0)
	var f frame.Frame
	switch s.serial % 3 {
	case 0: // pre-encoded v2 frame
		raw := mrw.Write(serialMsg(s.serial), true)
		ff := &frame.V2Frame{SequenceNumber: s.hdr[0], SystemID: s.hdr[1], ComponentID: s.hdr[2], Message: raw}
		ff.Checksum = ff.GenerateChecksum(mrw.CRCExtra())
		f = ff
	case 1: // v1 frame carrying a decoded message whose payload ends in zero bytes (a v2 node must keep it v1)
		m := &minimal.MessageHeartbeat{CustomMode: uint32(s.serial)}
		ff := &frame.V1Frame{SequenceNumber: s.hdr[0], SystemID: s.hdr[1], ComponentID: s.hdr[2], Message: mrw.Write(m, false)}
		ff.Checksum = ff.GenerateChecksum(mrw.CRCExtra())
		ff.Message = m
		f = ff
	default: // v2 frame carrying a decoded message
		m := &minimal.MessageHeartbeat{CustomMode: uint32(s.serial)}
		ff := &frame.V2Frame{SequenceNumber: s.hdr[0], SystemID: s.hdr[1], ComponentID: s.hdr[2], Message: mrw.Write(m, true)}
		ff.Checksum = ff.GenerateChecksum(mrw.CRCExtra())
		ff.Message = m
		f = ff
	}
	switch s.kind {
	case 3:
		node.WriteFrameAll(f) //nolint:errcheck
	case 4:
		node.WriteFrameTo(tgt, f) //nolint:errcheck
	default:
		node.WriteFrameExcept(tgt, f) //nolint:errcheck
	}
}

// checkWire decodes a wire, checks header rules and returns the serial sequence.
// originated messages: configured system / component id, per-link sequence numbers 0,1,2,...
// in emission order; forwarded frames keep their own header.
func checkWire(writes [][]byte, drw *dialect.ReadWriter, subs map[int]submission, sysid byte) ([]int, string) {
	frs, err := scn.DecodeWire(writes, drw)
	if err != nil {
		return nil, "NOT-ATOMIC " + err.Error()
	}
	var serials []int
	nextSeq := 0
	for _, fr := range frs {
		s := serialOf(fr)
		serials = append(serials, s)
		sub, known := subs[s]
		if s == markerSerial || subs == nil {
			known = true
			sub = submission{}
		}
		if !known {
			continue
		}
		if sub.isFrame {
			if fr.GetSequenceNumber() != sub.hdr[0] || fr.GetSystemID() != sub.hdr[1] || fr.GetComponentID() != sub.hdr[2] {
				return serials, fmt.Sprintf("FORWARDED-HEADER-CHANGED serial=%d", s)
			}
		} else {
			if fr.GetSystemID() != sysid || fr.GetComponentID() != 1 {
				return serials, fmt.Sprintf("ORIGINATED-IDS serial=%d", s)
			}
			if int(fr.GetSequenceNumber()) != nextSeq%256 {
				return serials, fmt.Sprintf("SEQ-GAP serial=%d got=%d want=%d", s, fr.GetSequenceNumber(), nextSeq%256)
			}
			nextSeq++
		}
	}
	return serials, "ok"
}

func genC11(o *hx.Out, tier string) {
	r := hx.NewRand(11)
	d := shipped("minimal")
	drw := &dialect.ReadWriter{Dialect: d}
	drw.Initialize() //nolint:errcheck
	// a foreign node's channel, for writes naming a channel that is not ours
	fp := scn.NewPipe("foreign")
	fnode := newNode([]*scn.Pipe{fp}, func(c *gomavlib.NodeConf) { c.Dialect = d })
	fcol := scn.NewCollector(fnode, 0, false)
	fchs, _ := openChannels(fcol, []*scn.Pipe{fp})
	foreign := fchs[0]

	nscen := 60
	if tier == "thorough" {
		nscen = 1200
	}
	for sc := 0; sc < nscen; sc++ {
		runtime.GOMAXPROCS([]int{1, 2, 16}[sc%3])
		k := 1 + r.Intn(5)
		g := 1 + r.Intn(3)
		pipes := make([]*scn.Pipe, k)
		for i := range pipes {
			pipes[i] = scn.NewPipe(fmt.Sprintf("p%d", i))
		}
		node := newNode(pipes, func(c *gomavlib.NodeConf) { c.Dialect = d })
		col := scn.NewCollector(node, 0, false)
		chs, ok := openChannels(col, pipes)
		if !ok {
			o.Add("fanout", "CHANNELS-NOT-OPEN", "fanchk", "exact", "-", "-")
			node.Close()
			continue
		}
		// concurrent incoming traffic on the channels
		for i := range pipes {
			pipes[i].Feed(frameBytes(drw, validFrame(r, drw, hx.RandMessage(r, d.Messages[0], 2), true, nil)))
		}
		subs := map[int]submission{}
		plans := make([][]submission, g)
		for gi := 0; gi < g; gi++ {
			n := 3 + r.Intn(15) // at most 3*17 + marker < 64 per channel: the queue can never fill
			for i := 0; i < n; i++ {
				s := submission{serial: (gi+1)*1000 + i, kind: r.Intn(6)}
				s.isFrame = s.kind >= 3
				s.target = r.Intn(k)
				if s.kind%3 == 1 && r.Intn(8) == 0 {
					s.target = -1 // foreign channel: ignored
				}
				s.hdr = [3]byte{byte(r.Intn(256)), byte(100 + r.Intn(100)), byte(r.Intn(256))}
				plans[gi] = append(plans[gi], s)
				subs[s.serial] = s
			}
		}
		var wg sync.WaitGroup
		for gi := 0; gi < g; gi++ {
			wg.Add(1)
			go func(gi int) {
				defer wg.Done()
				rr := rand.New(rand.NewSource(int64(sc*10 + gi)))
				for _, s := range plans[gi] {
					submit(node, drw, chs, foreign, s)
					if rr.Intn(3) == 0 {
						runtime.Gosched()
					}
				}
			}(gi)
		}
		wg.Wait()
		for i := range chs {
			node.WriteMessageTo(chs[i], serialMsg(markerSerial)) //nolint:errcheck
		}
		for c := 0; c < k; c++ {
			got := pipes[c].WaitWrites(func(ws [][]byte) bool {
				if len(ws) == 0 {
					return false
				}
				frs, err := scn.DecodeWire(ws[len(ws)-1:], drw)
				return err == nil && serialOf(frs[0]) == markerSerial
			})
			serials, verdict := checkWire(pipes[c].Writes(), drw, subs, 10)
			if !got {
				verdict = "MARKER-TIMEOUT"
			}
			var exp []string
			for gi := 0; gi < g; gi++ {
				var e []int
				for _, s := range plans[gi] {
					if s.target == -1 && s.kind%3 == 1 {
						continue // foreign target: ignored
					}
					if s.selects(c) {
						e = append(e, s.serial)
					}
				}
				exp = append(exp, joinInts(e))
			}
			exp = append(exp, strconv.Itoa(markerSerial))
			o.Add(fmt.Sprintf("fanout k=%d g=%d", k, g), verdict, "fanchk", "exact", strings.Join(exp, ";"), joinInts(serials))
		}
		// the foreign node's wire must stay empty
		if len(fp.Writes()) != 0 {
			o.Add("foreign", "LEAK-TO-FOREIGN-CHANNEL", "fanchk", "eq", "-", "-")
		}
		scn.CloseWithin(node, 10*time.Second)
	}
	// ---- routing: every received frame is forwarded to the other channels while more frames keep
	// arriving on the same transport read; with and without a dialect ----
	nrt := 8
	if tier == "thorough" {
		nrt = 120
	}
	for sc := 0; sc < nrt; sc++ {
		runtime.GOMAXPROCS([]int{1, 2, 16}[sc%3])
		raw := sc%2 == 0
		withSR := sc%4 == 1 // the router also answers ArduPilot heartbeats with stream requests
		pipes := []*scn.Pipe{scn.NewPipe("in"), scn.NewPipe("o1"), scn.NewPipe("o2")}
		node := newNode(pipes, func(c *gomavlib.NodeConf) {
			if !raw {
				c.Dialect = d
			}
			if withSR {
				c.Dialect = shipped("common")
				c.StreamRequestEnable = true
			}
		})
		n := 10 + r.Intn(40)
		var frames [][]byte
		var stream []byte
		for i := 0; i < n; i++ {
			m := hx.RandMessage(r, d.Messages[0], 2)
			if withSR {
				m.(*minimal.MessageHeartbeat).Autopilot = 3
			}
			b := frameBytes(drw, validFrame(r, drw, m, r.Intn(4) != 0, nil))
			frames = append(frames, b)
			stream = append(stream, b...)
		}
		forwarded := make(chan struct{})
		allOpen := make(chan struct{})
		go func() {
			k, opens := 0, 0
			for evt := range node.Events() {
				if _, ok := evt.(*gomavlib.EventChannelOpen); ok {
					opens++
					if opens == len(pipes) {
						close(allOpen)
					}
				}
				if fe, ok := evt.(*gomavlib.EventFrame); ok {
					node.WriteFrameExcept(fe.Channel, fe.Frame) //nolint:errcheck
					k++
					if k == n {
						close(forwarded)
					}
				}
			}
		}()
		select {
		case <-allOpen:
		case <-time.After(scn.Timeout):
			scn.NoteExpired()
		}
		// few large chunks: several frames per transport read
		for len(stream) > 0 {
			c := 1 + r.Intn(len(stream))
			if c > 700 {
				c = 700
			}
			pipes[0].Feed(stream[:c])
			stream = stream[c:]
		}
		verdict := "ok"
		select {
		case <-forwarded:
		case <-time.After(scn.Timeout):
			scn.NoteExpired()
			verdict = "FRAMES-NOT-ALL-RECEIVED"
		}
		for _, p := range pipes[1:] {
			p.WaitWrites(func(ws [][]byte) bool { return len(ws) >= n })
			ws := p.Writes()
			if len(ws) != n && verdict == "ok" {
				verdict = fmt.Sprintf("FORWARDED-COUNT %d of %d", len(ws), n)
			}
			for i := 0; i < len(ws) && i < n && verdict == "ok"; i++ {
				if string(ws[i]) != string(frames[i]) {
					verdict = fmt.Sprintf("FORWARDED-FRAME-%d-DIFFERS got=%s want=%s", i, hx.Hex(ws[i]), hx.Hex(frames[i]))
				}
			}
		}
		if len(pipes[0].Writes()) != 0 && verdict == "ok" && !withSR {
			verdict = "FORWARDED-BACK-TO-SENDER"
		}
		scn.CloseWithin(node, 10*time.Second)
		o.Add(fmt.Sprintf("router raw=%v sr=%v", raw, withSR), verdict, "expect", "ok", fmt.Sprintf("router raw=%v sr=%v n=%d", raw, withSR, n))
	}
	// ---- stream requests (written by the node on behalf of a channel's reader) while the
	// application writes to the same channel: every write on the wire is one whole frame and the
	// originated sequence numbers have no gap ----
	{
		cd := shipped("common")
		cdrw := &dialect.ReadWriter{Dialect: cd}
		cdrw.Initialize() //nolint:errcheck
		nsr := 4
		if tier == "thorough" {
			nsr = 40
		}
		for sc := 0; sc < nsr; sc++ {
			runtime.GOMAXPROCS([]int{2, 16}[sc%2])
			pipe := scn.NewPipe("sr")
			node := newNode([]*scn.Pipe{pipe}, func(c *gomavlib.NodeConf) {
				c.Dialect = cd
				c.StreamRequestEnable = true
			})
			col := scn.NewCollector(node, 0, false)
			chs, ok := openChannels(col, []*scn.Pipe{pipe})
			if !ok {
				node.Close()
				continue
			}
			nhb := 20 + r.Intn(20)
			var wg sync.WaitGroup
			wg.Add(2)
			go func() { // heartbeats of nhb distinct ArduPilot components: one burst of seven requests each
				defer wg.Done()
				for i := 0; i < nhb; i++ {
					hb := &minimal.MessageHeartbeat{Type: 1, Autopilot: 3, SystemStatus: 4, MavlinkVersion: 3}
					mrw := cdrw.GetMessage(0)
					f := &frame.V2Frame{SequenceNumber: byte(i), SystemID: byte(1 + i%200), ComponentID: byte(1 + i/200), Message: mrw.Write(hb, true)}
					f.Checksum = f.GenerateChecksum(mrw.CRCExtra())
					pipe.Feed(frameBytes(cdrw, f))
					if i%4 == 3 {
						runtime.Gosched()
					}
				}
			}()
			nw := 40 + r.Intn(40)
			go func() { // the application writes to the same channel meanwhile
				defer wg.Done()
				for i := 0; i < nw; i++ {
					node.WriteMessageTo(chs[0], serialMsg(i)) //nolint:errcheck
					if i%8 == 7 {
						time.Sleep(50 * time.Microsecond) // stay below the queue capacity
					}
				}
			}()
			wg.Wait()
			col.Wait(func() bool { return countFrameEvents(col.Events(chs[0])) >= nhb })
			node.WriteMessageTo(chs[0], serialMsg(markerSerial)) //nolint:errcheck
			got := waitMarker(pipe, cdrw)
			_, verdict := checkWire(pipe.Writes(), cdrw, nil, 10)
			if !got && verdict == "ok" {
				verdict = "MARKER-TIMEOUT"
			}
			if verdict == "ok" {
				want := 7*nhb + nw + 1
				if n := len(pipe.Writes()); n != want {
					verdict = fmt.Sprintf("WIRE-COUNT %d want %d", n, want)
				}
			}
			scn.CloseWithin(node, 10*time.Second)
			o.Add("stream requests beside application writes", verdict, "expect", "ok", fmt.Sprintf("sr-vs-writes hb=%d writes=%d", nhb, nw))
		}
	}
	// ---- whole frames at the size limits: a signing node (and an unsigned v1 / v2 one) writes
	// messages whose payload is 253..255 bytes next to small ones, as messages and as frames to
	// forward; every write on every channel must be exactly one frame that reads back (with the
	// key) as the message submitted, in submission order ----
	{
		cd := shipped("common")
		cdrw := &dialect.ReadWriter{Dialect: cd}
		cdrw.Initialize() //nolint:errcheck
		var big []message.Message
		for _, m := range cd.Messages {
			mrw := cdrw.GetMessage(m.GetID())
			full := hx.RandMessage(r, m, 1)
			if n := len(mrw.Write(full, true).Payload); n >= 250 {
				big = append(big, m)
			}
		}
		key := frame.NewV2Key([]byte("0123456789abcdef0123456789abcdef"))
		type cfg struct {
			name string
			ver  gomavlib.Version
			key  *frame.V2Key
		}
		for _, c := range []cfg{{"signed-v2", gomavlib.V2, key}, {"v2", gomavlib.V2, nil}, {"v1", gomavlib.V1, nil}} {
			pipes := []*scn.Pipe{scn.NewPipe("s0"), scn.NewPipe("s1")}
			node := newNode(pipes, func(nc *gomavlib.NodeConf) { nc.Dialect = cd; nc.OutVersion = c.ver; nc.OutKey = c.key })
			col := scn.NewCollector(node, 0, false)
			chs, ok := openChannels(col, pipes)
			verdict := "ok"
			if !ok {
				verdict = "CHANNELS-NOT-OPEN"
			} else {
				var sent []message.Message
				var fwd []bool
				for i := 0; i < 24; i++ {
					var m message.Message
					if i%2 == 0 && len(big) > 0 {
						m = hx.RandMessage(r, big[r.Intn(len(big))], 1) // every byte non-zero: nothing is truncated
					} else {
						m = hx.RandMessage(r, cd.Messages[r.Intn(len(cd.Messages))], 2)
					}
					if c.ver == gomavlib.V1 && m.GetID() > 255 {
						continue
					}
					sent = append(sent, m)
					fwd = append(fwd, i%3 == 2)
					if i%3 == 2 {
						// as a frame to forward: version and header are the frame's own
						mrw := cdrw.GetMessage(m.GetID())
						ff := &frame.V2Frame{SequenceNumber: byte(i), SystemID: 77, ComponentID: 7, Message: m}
						raw := mrw.Write(m, true)
						ff.Message = raw
						ff.Checksum = ff.GenerateChecksum(mrw.CRCExtra())
						ff.Message = m
						node.WriteFrameAll(ff) //nolint:errcheck
					} else {
						node.WriteMessageAll(m) //nolint:errcheck
					}
				}
				_ = chs
				for pi, p := range pipes {
					p.WaitWrites(func(ws [][]byte) bool { return len(ws) >= len(sent) })
					ws := p.Writes()
					if len(ws) != len(sent) {
						verdict = fmt.Sprintf("PIPE-%d-%d-WRITES-FOR-%d-ITEMS", pi, len(ws), len(sent))
						break
					}
					for i, w := range ws {
						// originated frames of the signing node are read with its key: the reader checks the signature
						var inKey *frame.V2Key
						if c.key != nil && !fwd[i] {
							inKey = c.key
						}
						rd := &frame.Reader{ByteReader: strings.NewReader(string(w)), DialectRW: cdrw, InKey: inKey}
						rd.Initialize() //nolint:errcheck
						fr, err := rd.Read()
						if err != nil {
							verdict = fmt.Sprintf("PIPE-%d-WRITE-%d-NOT-A-FRAME (%d bytes): %v", pi, i, len(w), err)
							break
						}
						if hx.Value(fr.GetMessage()) != hx.Value(canon(cdrw, sent[i], c.ver == gomavlib.V2 || fwd[i])) {
							verdict = fmt.Sprintf("PIPE-%d-WRITE-%d-OTHER-MESSAGE", pi, i)
							break
						}
						if _, err := rd.Read(); err == nil {
							verdict = fmt.Sprintf("PIPE-%d-WRITE-%d-MORE-THAN-ONE-FRAME", pi, i)
							break
						}
					}
					if verdict != "ok" {
						break
					}
				}
			}
			node.Close()
			o.Add("whole frames at the size limits", verdict, "expect", "ok", "size-limits "+c.name)
		}
	}
	// ---- messages the application has already encoded (raw messages of the dialect whose payload ends
	// in zero bytes) written to all channels of a v2 node: every channel gets every one of them as a
	// valid frame, and the application's message is what it was before the call (it is shared by the
	// writers of all channels) ----
	{
		pipes := []*scn.Pipe{scn.NewPipe("r0"), scn.NewPipe("r1"), scn.NewPipe("r2")}
		node := newNode(pipes, func(nc *gomavlib.NodeConf) { nc.Dialect = d })
		col := scn.NewCollector(node, 0, false)
		_, ok := openChannels(col, pipes)
		verdict := "ok"
		if !ok {
			verdict = "CHANNELS-NOT-OPEN"
		} else {
			mrw := drw.GetMessage(0)
			const n = 40
			var raws []*message.MessageRaw
			var copies [][]byte
			for i := 0; i < n; i++ {
				full := mrw.Write(&minimal.MessageHeartbeat{Type: 1, CustomMode: uint32(i + 1)}, false) // v1 encoding: nothing stripped, ends in zeros
				raw := &message.MessageRaw{ID: 0, Payload: append([]byte(nil), full.Payload...)}
				raws = append(raws, raw)
				copies = append(copies, append([]byte(nil), raw.Payload...))
				node.WriteMessageAll(raw) //nolint:errcheck
			}
			for pi, p := range pipes {
				p.WaitWrites(func(ws [][]byte) bool { return len(ws) >= n })
				frs, err := scn.DecodeWire(p.Writes(), drw)
				if err != nil || len(frs) != n {
					verdict = fmt.Sprintf("PIPE-%d-WIRE %d frames of %d: %v", pi, len(frs), n, err)
					break
				}
				for i, fr := range frs {
					if hb, isHb := fr.GetMessage().(*minimal.MessageHeartbeat); !isHb || hb.CustomMode != uint32(i+1) || hb.Type != 1 {
						verdict = fmt.Sprintf("PIPE-%d-FRAME-%d-OTHER-MESSAGE", pi, i)
						break
					}
				}
			}
			for i, raw := range raws {
				if verdict == "ok" && string(raw.Payload) != string(copies[i]) {
					verdict = fmt.Sprintf("APPLICATION-MESSAGE-%d-MODIFIED payload of %d bytes became %d", i, len(copies[i]), len(raw.Payload))
				}
			}
		}
		node.Close()
		o.Add("raw messages ending in zeros to all channels", verdict, "expect", "ok", "raw-to-all")
	}
	// ---- the application reuses one message object for all its writes, changing it between two
	// submissions while a channel still has earlier items queued: every channel gets the items as they
	// were when they were submitted, in order ----
	{
		pipes := []*scn.Pipe{scn.NewPipe("u0"), scn.NewPipe("u1")}
		node := newNode(pipes, func(nc *gomavlib.NodeConf) { nc.Dialect = d })
		col := scn.NewCollector(node, 0, false)
		_, ok := openChannels(col, pipes)
		verdict := "ok"
		if !ok {
			verdict = "CHANNELS-NOT-OPEN"
		} else {
			pipes[0].BlockWrites() // channel 0 lags behind: its writer is stuck in the first write
			const n = 12
			m := &minimal.MessageHeartbeat{Type: 1, MavlinkVersion: 3}
			for i := 1; i <= n; i++ {
				m.CustomMode = uint32(i)
				node.WriteMessageAll(m) //nolint:errcheck
			}
			m.CustomMode = 999
			time.Sleep(50 * time.Millisecond)
			pipes[0].UnblockWrites()
			for pi, p := range pipes {
				p.WaitWrites(func(ws [][]byte) bool { return len(ws) >= n })
				frs, err := scn.DecodeWire(p.Writes(), drw)
				if err != nil || len(frs) != n {
					verdict = fmt.Sprintf("PIPE-%d-WIRE %d frames of %d: %v", pi, len(frs), n, err)
					break
				}
				var got []string
				bad := false
				for i, fr := range frs {
					got = append(got, strconv.Itoa(serialOf(fr)))
					if serialOf(fr) != i+1 {
						bad = true
					}
				}
				if bad {
					verdict = fmt.Sprintf("PIPE-%d-ITEMS-NOT-AS-SUBMITTED [%s]", pi, strings.Join(got, " "))
					break
				}
			}
		}
		node.Close()
		o.Add("one message object reused for every write", verdict, "expect", "ok", "message-reuse")
	}
	// ---- a transport that outlives its channel (a custom endpoint hands the same transport to the next
	// channel after a read fault) and takes its time over every Write: whatever is written to it while
	// the channels change, the bytes on the wire are whole frames, one after the other ----
	for rep := 0; rep < 3; rep++ {
		tw := newTornWire()
		node, err := gomavlib.NewNode(gomavlib.NodeConf{Endpoints: []gomavlib.EndpointConf{gomavlib.EndpointCustom{ReadWriteCloser: tw}},
			Dialect: d, OutVersion: gomavlib.V2, OutSystemID: 10, HeartbeatDisable: true})
		verdict := "ok"
		if err != nil {
			verdict = "NODE-FAILED"
		} else {
			col := scn.NewCollector(node, 0, false)
			stop := make(chan struct{})
			var wg sync.WaitGroup
			wg.Add(1)
			go func() {
				defer wg.Done()
				for i := 0; ; i++ {
					select {
					case <-stop:
						return
					default:
					}
					node.WriteMessageAll(serialMsg(i)) //nolint:errcheck
					time.Sleep(100 * time.Microsecond) // faster than the wire: the channel always has a backlog
				}
			}()
			for life := 0; life < 3; life++ {
				time.Sleep(40 * time.Millisecond)
				tw.fail <- fmt.Errorf("read fault %d", life)
			}
			time.Sleep(30 * time.Millisecond)
			close(stop)
			wg.Wait()
			time.Sleep(50 * time.Millisecond)
			scn.CloseWithin(node, 10*time.Second)
			<-col.Done
			wire := tw.bytes()
			rd := &frame.Reader{ByteReader: strings.NewReader(string(wire)), DialectRW: drw}
			rd.Initialize() //nolint:errcheck
			frames, perr := 0, 0
			for {
				_, err := rd.Read()
				if err == nil {
					frames++
					continue
				}
				var pe frame.ReadError
				if errors.As(err, &pe) {
					perr++
					continue
				}
				break
			}
			if perr != 0 || frames == 0 {
				verdict = fmt.Sprintf("WIRE-NOT-WHOLE-FRAMES %d frames, %d parse errors in %d bytes", frames, perr, len(wire))
			}
		}
		o.Add("a transport reused by successive channels, slow writes", verdict, "expect", "ok", fmt.Sprintf("torn-wire rep=%d", rep))
	}
	// ---- a stalled channel does not keep writes from the healthy ones ----
	for sc := 0; sc < 4; sc++ {
		pipes := []*scn.Pipe{scn.NewPipe("stalled"), scn.NewPipe("healthy")}
		node := newNode(pipes, func(c *gomavlib.NodeConf) { c.Dialect = d })
		col := scn.NewCollector(node, 0, false)
		chs, ok := openChannels(col, pipes)
		if !ok {
			o.Add("stalled sibling", "CHANNELS-NOT-OPEN", "fanchk", "eq", "-", "-")
			node.Close()
			continue
		}
		pipes[0].BlockWrites()
		n := 90 + r.Intn(60)
		done := make(chan struct{})
		go func() {
			defer close(done)
			for i := 0; i < n; i++ {
				node.WriteMessageAll(serialMsg(1000 + i)) //nolint:errcheck
				if i%32 == 31 {
					time.Sleep(200 * time.Microsecond)
				}
			}
			node.WriteMessageTo(chs[1], serialMsg(markerSerial)) //nolint:errcheck
		}()
		verdict := ""
		select {
		case <-done:
		case <-time.After(scn.Timeout):
			scn.NoteExpired()
			verdict = "SUBMIT-BLOCKED"
		}
		got := pipes[1].WaitWrites(func(ws [][]byte) bool {
			if len(ws) == 0 {
				return false
			}
			frs, err := scn.DecodeWire(ws[len(ws)-1:], drw)
			return err == nil && serialOf(frs[0]) == markerSerial
		})
		serials, v2 := checkWire(pipes[1].Writes(), drw, nil, 10)
		if verdict == "" {
			verdict = v2
		}
		if !got && verdict == "ok" {
			verdict = "MARKER-TIMEOUT"
		}
		var exp []int
		for i := 0; i < n; i++ {
			exp = append(exp, 1000+i)
		}
		exp = append(exp, markerSerial)
		o.Add("stalled sibling: healthy channel gets everything", verdict, "fanchk", "eq", joinInts(exp), joinInts(serials))
		pipes[0].UnblockWrites()
		<-done
		scn.CloseWithin(node, 10*time.Second)
	}
	fnode.Close()
	runtime.GOMAXPROCS(runtime.NumCPU())
	_ = reflect.TypeOf
}

func countFrameEvents(evs []gomavlib.Event) int {
	n := 0
	for _, e := range evs {
		if _, ok := e.(*gomavlib.EventFrame); ok {
			n++
		}
	}
	return n
}

// canon is the message as it reads back after one encode / decode through the dialect.
func canon(drw *dialect.ReadWriter, m message.Message, v2 bool) message.Message {
	mrw := drw.GetMessage(m.GetID())
	out, err := mrw.Read(mrw.Write(m, v2), v2)
	if err != nil {
		return m
	}
	return out
}

// tornWire is a transport whose Write stores one byte at a time, yielding in between (so that two
// writers at once would interleave their bytes), and whose Read fails when told to.
type tornWire struct {
	mu   sync.Mutex
	data []byte
	fail chan error
	done chan struct{}
	once sync.Once
}

func newTornWire() *tornWire { return &tornWire{fail: make(chan error), done: make(chan struct{})} }

func (t *tornWire) Read(p []byte) (int, error) {
	select {
	case err := <-t.fail:
		return 0, err
	case <-t.done:
		return 0, io.EOF
	}
}

func (t *tornWire) Write(p []byte) (int, error) {
	for _, b := range p {
		t.mu.Lock()
		t.data = append(t.data, b)
		t.mu.Unlock()
		time.Sleep(20 * time.Microsecond)
	}
	return len(p), nil
}

func (t *tornWire) Close() error { t.once.Do(func() { close(t.done) }); return nil }

func (t *tornWire) bytes() []byte {
	t.mu.Lock()
	defer t.mu.Unlock()
	return append([]byte(nil), t.data...)
}
