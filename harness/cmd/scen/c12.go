package main

import (
	"errors"
	"fmt"
	"io"
	"net"
	"os"
	"reflect"
	"runtime"
	"strings"
	"sync"
	"sync/atomic"
	"time"

	"github.com/bluenviron/gomavlib/v3"
	"github.com/bluenviron/gomavlib/v3/pkg/dialect"
	"github.com/bluenviron/gomavlib/v3/pkg/frame"

	"verifharness/hx"
	"verifharness/scn"
)

func init() { gens["C12"] = genC12 }

// closeReport closes the node and reports everything C12 promises.
func closeReport(node *gomavlib.Node, col *scn.Collector, pipes []*scn.Pipe, writersDone func() bool) string {
	var bad []string
	if !scn.CloseWithin(node, 8*time.Second) {
		return "CLOSE-DID-NOT-RETURN"
	}
	// ranging over Events() ends (start consuming if the consumer was absent)
	col.Resume()
	select {
	case <-col.Done:
	case <-time.After(5 * time.Second):
		bad = append(bad, "EVENTS-NOT-CLOSED")
	}
	for _, p := range pipes {
		if c := atomic.LoadInt32(&p.Closes); c != 1 {
			bad = append(bad, fmt.Sprintf("CUSTOM-CLOSE-COUNT=%d", c))
		}
	}
	if writersDone != nil && !writersDone() {
		bad = append(bad, "WRITE-CALL-BLOCKED-AFTER-CLOSE")
	}
	if l := scn.Leaks(); l != "" {
		bad = append(bad, "GOROUTINE-LEAK "+l)
	}
	if len(bad) == 0 {
		return "ok"
	}
	return strings.Join(bad, " | ")
}

func canListenTCP(addr string) bool {
	for i := 0; i < 50; i++ {
		l, err := net.Listen("tcp4", addr)
		if err == nil {
			l.Close()
			return true
		}
		time.Sleep(20 * time.Millisecond)
	}
	return false
}
func canListenUDP(addr string) bool {
	for i := 0; i < 50; i++ {
		l, err := net.ListenPacket("udp4", addr)
		if err == nil {
			l.Close()
			return true
		}
		time.Sleep(20 * time.Millisecond)
	}
	return false
}

func genC12(o *hx.Out, tier string) {
	r := hx.NewRand(12)
	d := shipped("minimal")
	drw := &dialect.ReadWriter{Dialect: d}
	drw.Initialize() //nolint:errcheck
	gomavlib.VerifSetReconnectPeriod(50 * time.Millisecond)
	reps := 3
	if tier == "thorough" {
		reps = 40
	}
	// ---- custom endpoints: Close at every point of the channel life ----
	points := []string{"before-first-event", "reader-blocked-on-undelivered-event", "idle", "writer-blocked-in-transport",
		"channel-mid-close", "traffic-in-flight", "many-pending-writes"}
	for rep := 0; rep < reps; rep++ {
		for _, point := range points {
			for _, consumer := range []bool{true, false} {
				runtime.GOMAXPROCS([]int{1, 2, 16}[(rep+len(point))%3])
				k := 1 + r.Intn(3)
				pipes := make([]*scn.Pipe, k)
				for i := range pipes {
					pipes[i] = scn.NewPipe(fmt.Sprintf("p%d", i))
				}
				node := newNode(pipes, func(c *gomavlib.NodeConf) { c.Dialect = d })
				col := scn.NewCollector(node, 0, !consumer || point == "before-first-event" || point == "reader-blocked-on-undelivered-event")
				frameB := frameBytes(drw, validFrame(r, drw, hx.RandMessage(r, d.Messages[0], 2), true, nil))
				// concurrent Write* callers racing with Close
				var stop int32
				var wg sync.WaitGroup
				var panicked int32
				nw := r.Intn(3)
				for w := 0; w < nw; w++ {
					wg.Add(1)
					go func() {
						defer wg.Done()
						defer func() {
							if recover() != nil {
								atomic.StoreInt32(&panicked, 1)
							}
						}()
						for atomic.LoadInt32(&stop) == 0 {
							node.WriteMessageAll(serialMsg(1)) //nolint:errcheck
							runtime.Gosched()
						}
						// and a few more after Close has returned
						for i := 0; i < 5; i++ {
							node.WriteMessageAll(serialMsg(2)) //nolint:errcheck
						}
					}()
				}
				switch point {
				case "before-first-event":
				case "reader-blocked-on-undelivered-event":
					col.Resume()
					col.Wait(func() bool { return col.Count() >= k })
					col.Pause()
					for _, p := range pipes {
						p.Feed(frameB)
						p.Feed(frameB)
					}
					time.Sleep(time.Millisecond)
				case "idle":
					if consumer {
						col.Wait(func() bool { return col.Count() >= k })
					}
				case "writer-blocked-in-transport":
					pipes[0].BlockWrites()
					node.WriteMessageAll(serialMsg(7)) //nolint:errcheck
					deadline := time.Now().Add(2 * time.Second)
					for atomic.LoadInt32(&pipes[0].BlockedIn) == 0 && time.Now().Before(deadline) {
						time.Sleep(time.Millisecond)
					}
				case "channel-mid-close":
					for _, p := range pipes {
						p.FeedErr(errors.New("scripted read failure"))
					}
					time.Sleep(time.Duration(r.Intn(500)) * time.Microsecond)
				case "traffic-in-flight":
					for i := 0; i < 20; i++ {
						pipes[r.Intn(k)].Feed(frameB)
					}
				case "many-pending-writes":
					for i := 0; i < 100; i++ {
						node.WriteMessageAll(serialMsg(i)) //nolint:errcheck
					}
				}
				time.Sleep(time.Duration(r.Intn(300)) * time.Microsecond)
				verdict := closeReport(node, col, pipes, func() bool {
					atomic.StoreInt32(&stop, 1)
					ch := make(chan struct{})
					go func() { wg.Wait(); close(ch) }()
					select {
					case <-ch:
						return true
					case <-time.After(5 * time.Second):
						return false
					}
				})
				if atomic.LoadInt32(&panicked) != 0 {
					verdict += " | WRITE-CALL-PANICKED"
				}
				o.Add(fmt.Sprintf("custom %s consumer=%v", point, consumer), verdict, "expect", "ok", fmt.Sprintf("custom k=%d %s consumer=%v writers=%d rep=%d", k, point, consumer, nw, rep))
			}
		}
	}
	// ---- serial endpoints (fake devices through the verif hook): the transport is closed only by
	// the channel, and a Write blocked in it returns only when it is closed ----
	for rep := 0; rep < reps*2; rep++ {
		for _, point := range []string{"writer-blocked-in-transport", "idle", "traffic-in-flight", "read-error-while-writer-blocked"} {
			runtime.GOMAXPROCS([]int{1, 2, 16}[rep%3])
			var mu sync.Mutex
			var opened []*scn.Pipe
			gomavlib.VerifSetSerialOpenFunc(func(device string, baud int) (io.ReadWriteCloser, error) {
				p := scn.NewPipe(device)
				mu.Lock()
				opened = append(opened, p)
				mu.Unlock()
				return p, nil
			})
			node, err := gomavlib.NewNode(gomavlib.NodeConf{Endpoints: []gomavlib.EndpointConf{gomavlib.EndpointSerial{Device: "/dev/fake", Baud: 57600}},
				Dialect: d, OutVersion: gomavlib.V2, OutSystemID: 10, HeartbeatDisable: true})
			if err != nil {
				o.Add("serial "+point, "INIT-FAILED "+err.Error(), "expect", "ok", fmt.Sprintf("serial %s rep=%d", point, rep))
				continue
			}
			col := scn.NewCollector(node, 0, rep%2 == 1)
			// the device of the channel is the second one opened (the first is the probe of initialize)
			var dev *scn.Pipe
			deadline := time.Now().Add(3 * time.Second)
			for dev == nil && time.Now().Before(deadline) {
				mu.Lock()
				if len(opened) >= 2 {
					dev = opened[1]
				}
				mu.Unlock()
				time.Sleep(time.Millisecond)
			}
			if dev == nil {
				o.Add("serial "+point, "DEVICE-NOT-OPENED", "expect", "ok", fmt.Sprintf("serial %s rep=%d", point, rep))
				node.Close()
				continue
			}
			if rep%2 == 0 {
				col.Wait(func() bool { return col.Count() >= 1 })
			} else {
				time.Sleep(2 * time.Millisecond)
			}
			switch point {
			case "writer-blocked-in-transport":
				dev.BlockWrites()
				node.WriteMessageAll(serialMsg(7)) //nolint:errcheck
				dl := time.Now().Add(2 * time.Second)
				for atomic.LoadInt32(&dev.BlockedIn) == 0 && time.Now().Before(dl) {
					time.Sleep(time.Millisecond)
				}
			case "read-error-while-writer-blocked":
				// the reader ends first while a Write is stuck in the device: the channel must close the
				// device (which releases the writer) and end; Close() afterwards must still return
				dev.BlockWrites()
				node.WriteMessageAll(serialMsg(7)) //nolint:errcheck
				dl := time.Now().Add(2 * time.Second)
				for atomic.LoadInt32(&dev.BlockedIn) == 0 && time.Now().Before(dl) {
					time.Sleep(time.Millisecond)
				}
				dev.FeedErr(errors.New("device unplugged"))
				dl = time.Now().Add(3 * time.Second)
				for atomic.LoadInt32(&dev.Closes) == 0 && time.Now().Before(dl) {
					time.Sleep(time.Millisecond)
				}
			case "traffic-in-flight":
				fb := frameBytes(drw, validFrame(r, drw, hx.RandMessage(r, d.Messages[0], 2), true, nil))
				for i := 0; i < 10; i++ {
					dev.Feed(fb)
				}
			}
			verdict := closeReport(node, col, nil, nil)
			mu.Lock()
			for i, p := range opened {
				if c := atomic.LoadInt32(&p.Closes); c != 1 {
					verdict += fmt.Sprintf(" | SERIAL-DEVICE-%d-CLOSE-COUNT=%d", i, c)
				}
			}
			mu.Unlock()
			o.Add("serial "+point, verdict, "expect", "ok", fmt.Sprintf("serial %s rep=%d", point, rep))
		}
	}
	// ---- Close() right after NewNode(): every goroutine the node started is counted, none keeps
	// running (and opening devices) after Close() has returned ----
	for rep := 0; rep < reps*3; rep++ {
		runtime.GOMAXPROCS([]int{1, 1, 2, 16}[rep%4])
		var mu sync.Mutex
		var opened []*scn.Pipe
		closedAt := time.Time{}
		lateOpens := 0
		gomavlib.VerifSetSerialOpenFunc(func(device string, baud int) (io.ReadWriteCloser, error) {
			p := scn.NewPipe(device)
			mu.Lock()
			opened = append(opened, p)
			if !closedAt.IsZero() {
				lateOpens++
			}
			mu.Unlock()
			return p, nil
		})
		node, err := gomavlib.NewNode(gomavlib.NodeConf{Endpoints: []gomavlib.EndpointConf{gomavlib.EndpointSerial{Device: "/dev/fake", Baud: 57600}},
			Dialect: d, OutVersion: gomavlib.V2, OutSystemID: 10, HeartbeatDisable: rep%2 == 0, HeartbeatPeriod: 5 * time.Millisecond})
		if err != nil {
			o.Add("serial immediate close", "INIT-FAILED "+err.Error(), "expect", "ok", fmt.Sprintf("immediate rep=%d", rep))
			continue
		}
		// Close() is called directly, with nothing else made runnable in between: the goroutines the
		// node has just started may not have run a single instruction yet (a hang here would be a
		// Close() that does not return, which the scenarios above report; the watchdog only keeps
		// the harness from waiting for ever)
		verdict := "ok"
		watchdog := time.AfterFunc(20*time.Second, func() {
			fmt.Fprintln(os.Stderr, "C12 immediate close: Close() did not return within 20 s")
			os.Exit(3)
		})
		node.Close()
		watchdog.Stop()
		mu.Lock()
		closedAt = time.Now()
		mu.Unlock()
		evClosed := make(chan struct{})
		go func() {
			for range node.Events() {
			}
			close(evClosed)
		}()
		select {
		case <-evClosed:
		case <-time.After(5 * time.Second):
			verdict = "EVENTS-NOT-CLOSED"
		}
		time.Sleep(30 * time.Millisecond)
		mu.Lock()
		if lateOpens > 0 && verdict == "ok" {
			verdict = fmt.Sprintf("DEVICE-OPENED-AFTER-CLOSE-RETURNED x%d", lateOpens)
		}
		for i, p := range opened {
			if c := atomic.LoadInt32(&p.Closes); c != 1 && verdict == "ok" {
				verdict = fmt.Sprintf("SERIAL-DEVICE-%d-CLOSE-COUNT=%d", i, c)
			}
		}
		mu.Unlock()
		if l := scn.Leaks(); l != "" && verdict == "ok" {
			verdict = "GOROUTINE-LEAK " + l
		}
		o.Add("serial immediate close", verdict, "expect", "ok", fmt.Sprintf("immediate rep=%d", rep))
	}
	// ---- a device obtained while the node is closing must be released ----
	for rep := 0; rep < reps*2; rep++ {
		runtime.GOMAXPROCS([]int{1, 2, 16}[rep%3])
		var mu sync.Mutex
		calls := 0
		entered := make(chan struct{})
		release := make(chan struct{})
		var late *scn.Pipe
		gomavlib.VerifSetSerialOpenFunc(func(device string, baud int) (io.ReadWriteCloser, error) {
			mu.Lock()
			calls++
			c := calls
			mu.Unlock()
			if c == 2 {
				close(entered)
				<-release
				p := scn.NewPipe("late")
				mu.Lock()
				late = p
				mu.Unlock()
				return p, nil
			}
			if c > 2 {
				return nil, errors.New("no more devices")
			}
			return scn.NewPipe(device), nil
		})
		node, err := gomavlib.NewNode(gomavlib.NodeConf{Endpoints: []gomavlib.EndpointConf{gomavlib.EndpointSerial{Device: "/dev/fake", Baud: 57600}},
			Dialect: d, OutVersion: gomavlib.V2, OutSystemID: 10, HeartbeatDisable: true})
		if err != nil {
			o.Add("serial open-during-close", "INIT-FAILED "+err.Error(), "expect", "ok", fmt.Sprintf("serial open-during-close rep=%d", rep))
			continue
		}
		col := scn.NewCollector(node, 0, rep%2 == 1)
		verdict := "ok"
		select {
		case <-entered:
		case <-time.After(3 * time.Second):
			verdict = "DEVICE-NOT-OPENED"
		}
		closed := make(chan bool, 1)
		go func() { closed <- scn.CloseWithin(node, 8*time.Second) }()
		time.Sleep(time.Duration(5+rep%4*10) * time.Millisecond)
		close(release)
		if !<-closed {
			verdict = "CLOSE-DID-NOT-RETURN"
		} else {
			col.Resume()
			select {
			case <-col.Done:
			case <-time.After(5 * time.Second):
				verdict = "EVENTS-NOT-CLOSED"
			}
			mu.Lock()
			lp := late
			mu.Unlock()
			if lp == nil {
				verdict += " | LATE-DEVICE-NEVER-RETURNED"
			} else if c := atomic.LoadInt32(&lp.Closes); c != 1 {
				verdict += fmt.Sprintf(" | DEVICE-OPENED-DURING-CLOSE-CLOSE-COUNT=%d", c)
			}
			if l := scn.Leaks(); l != "" {
				verdict += " | GOROUTINE-LEAK " + l
			}
		}
		o.Add("serial open-during-close", verdict, "expect", "ok", fmt.Sprintf("serial open-during-close rep=%d", rep))
	}
	// ---- Close() while the node's own heartbeat routine is submitting a write ----
	for rep := 0; rep < reps*5; rep++ {
		runtime.GOMAXPROCS([]int{1, 2, 16}[rep%3])
		pipes := []*scn.Pipe{scn.NewPipe("hb")}
		node := newNode(pipes, func(c *gomavlib.NodeConf) {
			c.Dialect = d
			c.HeartbeatDisable = false
			c.HeartbeatPeriod = time.Duration(100+rep*37%400) * time.Microsecond
		})
		col := scn.NewCollector(node, 0, rep%2 == 1)
		time.Sleep(time.Duration(1+rep%5) * time.Millisecond)
		verdict := closeReport(node, col, pipes, nil)
		o.Add("custom close with a busy heartbeat routine", verdict, "expect", "ok", fmt.Sprintf("busy-heartbeat rep=%d", rep))
		if verdict != "ok" {
			break // a hung node keeps its goroutines: later repetitions would only repeat the report
		}
	}
	// ---- a transport whose blocked Read is released late: Close() must wait for the reader too ----
	for rep := 0; rep < reps; rep++ {
		runtime.GOMAXPROCS([]int{1, 2, 16}[rep%3])
		pipes := []*scn.Pipe{scn.NewPipe("slow0"), scn.NewPipe("slow1")}
		for _, p := range pipes {
			p.SlowClose(300 * time.Millisecond)
		}
		node := newNode(pipes, func(c *gomavlib.NodeConf) { c.Dialect = d })
		col := scn.NewCollector(node, 0, false)
		col.Wait(func() bool { return col.Count() >= 2 })
		verdict := "ok"
		if !scn.CloseWithin(node, 8*time.Second) {
			verdict = "CLOSE-DID-NOT-RETURN"
		} else if l := scn.LeaksAfter(40 * time.Millisecond); l != "" {
			verdict = "GOROUTINE-STILL-RUNNING-AFTER-CLOSE-RETURNED " + l
		}
		select {
		case <-col.Done:
		case <-time.After(3 * time.Second):
		}
		scn.Leaks()
		o.Add("custom close with a late-returning Read", verdict, "expect", "ok", fmt.Sprintf("slow-read rep=%d", rep))
	}
	// ---- Close() while one channel's transport is stuck and its queue has overflowed ----
	for rep := 0; rep < reps; rep++ {
		runtime.GOMAXPROCS([]int{1, 2, 16}[rep%3])
		pipes := []*scn.Pipe{scn.NewPipe("stuck"), scn.NewPipe("fine")}
		node := newNode(pipes, func(c *gomavlib.NodeConf) { c.Dialect = d })
		col := scn.NewCollector(node, 0, rep%2 == 1)
		if rep%2 == 0 {
			col.Wait(func() bool { return col.Count() >= 2 })
		} else {
			time.Sleep(5 * time.Millisecond)
		}
		pipes[0].BlockWrites()
		subDone := make(chan struct{})
		go func() {
			defer close(subDone)
			for i := 0; i < 100+rep; i++ {
				node.WriteMessageAll(serialMsg(i)) //nolint:errcheck
			}
		}()
		verdict := ""
		select {
		case <-subDone:
		case <-time.After(scn.Timeout):
			scn.NoteExpired()
			verdict = "WRITE-CALLS-BLOCKED-BY-A-STUCK-CHANNEL | "
		}
		verdict += closeReport(node, col, pipes, func() bool {
			select {
			case <-subDone:
				return true
			case <-time.After(3 * time.Second):
				return false
			}
		})
		if verdict != "ok" && strings.HasSuffix(verdict, "| ok") {
			verdict = strings.TrimSuffix(verdict, " | ok")
		}
		o.Add("custom close with a stuck, overflowed channel", verdict, "expect", "ok", fmt.Sprintf("stuck-overflow rep=%d", rep))
	}
	// ---- network endpoints ----
	base := 24000 + int(hx.Seed()%100)*20
	netReps := 2
	if tier == "thorough" {
		netReps = 15
	}
	for rep := 0; rep < netReps; rep++ {
		for kind := 0; kind < 6; kind++ {
			port := base + kind
			addr := fmt.Sprintf("127.0.0.1:%d", port)
			var conf gomavlib.EndpointConf
			name := ""
			var peer func() func()
			switch kind {
			case 0:
				name = "tcp-server with a connected peer"
				conf = gomavlib.EndpointTCPServer{Address: addr}
				peer = func() func() {
					var c net.Conn
					for i := 0; i < 100; i++ {
						var err error
						c, err = net.Dial("tcp4", addr)
						if err == nil {
							break
						}
						time.Sleep(5 * time.Millisecond)
					}
					return func() {
						if c != nil {
							c.Close()
						}
					}
				}
			case 1:
				name = "udp-server with a peer"
				conf = gomavlib.EndpointUDPServer{Address: addr}
				peer = func() func() {
					c, err := net.Dial("udp4", addr)
					if err == nil {
						c.Write(frameBytes(drw, validFrame(r, drw, hx.RandMessage(r, d.Messages[0], 2), true, nil))) //nolint:errcheck
					}
					return func() {
						if c != nil {
							c.Close()
						}
					}
				}
			case 2:
				name = "tcp-client connected"
				l, err := net.Listen("tcp4", addr)
				if err != nil {
					continue
				}
				go func() {
					for {
						c, err := l.Accept()
						if err != nil {
							return
						}
						defer c.Close()
					}
				}()
				conf = gomavlib.EndpointTCPClient{Address: addr}
				peer = func() func() { return func() { l.Close() } }
			case 3:
				name = "tcp-client in reconnect back-off (nothing listens)"
				conf = gomavlib.EndpointTCPClient{Address: addr}
			case 4:
				name = "udp-client"
				conf = gomavlib.EndpointUDPClient{Address: addr}
			case 5:
				name = "udp-broadcast"
				conf = gomavlib.EndpointUDPBroadcast{BroadcastAddress: fmt.Sprintf("127.255.255.255:%d", port), LocalAddress: addr}
			}
			node, err := gomavlib.NewNode(gomavlib.NodeConf{Endpoints: []gomavlib.EndpointConf{conf}, Dialect: d,
				OutVersion: gomavlib.V2, OutSystemID: 10, HeartbeatPeriod: 20 * time.Millisecond})
			if err != nil {
				o.Add("net "+name, "INIT-FAILED "+err.Error(), "expect", "ok", fmt.Sprintf("net %s rep=%d", name, rep))
				continue
			}
			col := scn.NewCollector(node, 0, rep%2 == 1)
			var cleanup func()
			if peer != nil {
				cleanup = peer()
			}
			time.Sleep(time.Duration(5+r.Intn(60)) * time.Millisecond)
			verdict := closeReport(node, col, nil, nil)
			if cleanup != nil {
				cleanup()
			}
			switch kind {
			case 0:
				if !canListenTCP(addr) {
					verdict += " | TCP-PORT-NOT-RELEASED"
				}
			case 1, 5:
				if !canListenUDP(addr) {
					verdict += " | UDP-PORT-NOT-RELEASED"
				}
			}
			o.Add("net "+name, verdict, "expect", "ok", fmt.Sprintf("net %s rep=%d", name, rep))
		}
	}
	// ---- a node whose initialisation fails leaves nothing behind ----
	for rep := 0; rep < netReps; rep++ {
		p1 := base + 10
		p2 := base + 11
		blocker, err := net.Listen("tcp4", fmt.Sprintf("127.0.0.1:%d", p2))
		if err != nil {
			continue
		}
		_, err = gomavlib.NewNode(gomavlib.NodeConf{Endpoints: []gomavlib.EndpointConf{
			gomavlib.EndpointTCPServer{Address: fmt.Sprintf("127.0.0.1:%d", p1)},
			gomavlib.EndpointUDPServer{Address: fmt.Sprintf("127.0.0.1:%d", p1)},
			gomavlib.EndpointTCPServer{Address: fmt.Sprintf("127.0.0.1:%d", p2)}, // in use: fails
		}, Dialect: d, OutVersion: gomavlib.V2, OutSystemID: 10})
		blocker.Close()
		verdict := "ok"
		if err == nil {
			verdict = "INIT-DID-NOT-FAIL"
		} else {
			if !canListenTCP(fmt.Sprintf("127.0.0.1:%d", p1)) {
				verdict = "LISTENER-LEFT-BEHIND-AFTER-FAILED-INIT"
			}
			if !canListenUDP(fmt.Sprintf("127.0.0.1:%d", p1)) {
				verdict = "UDP-LISTENER-LEFT-BEHIND-AFTER-FAILED-INIT"
			}
			if l := scn.Leaks(); l != "" {
				verdict += " | GOROUTINE-LEAK-AFTER-FAILED-INIT " + l
			}
		}
		o.Add("failed initialisation", verdict, "expect", "ok", fmt.Sprintf("failed-init rep=%d", rep))
	}
	// ---- whatever the outcome of the initialisation (odd but syntactically possible settings):
	// after a failure, or after Close() when it succeeded, the local ports are free again ----
	oddp := base + 12
	odd := []struct {
		name string
		conf gomavlib.EndpointConf
		udp  bool
	}{
		{"broadcast port above 65535", gomavlib.EndpointUDPBroadcast{BroadcastAddress: "127.255.255.255:70000", LocalAddress: fmt.Sprintf("127.0.0.1:%d", oddp)}, true},
		{"broadcast port not a number", gomavlib.EndpointUDPBroadcast{BroadcastAddress: "127.255.255.255:mavlink", LocalAddress: fmt.Sprintf("127.0.0.1:%d", oddp)}, true},
		{"broadcast address without a port", gomavlib.EndpointUDPBroadcast{BroadcastAddress: "127.255.255.255", LocalAddress: fmt.Sprintf("127.0.0.1:%d", oddp)}, true},
		{"broadcast address not an IP", gomavlib.EndpointUDPBroadcast{BroadcastAddress: "nowhere:5600", LocalAddress: fmt.Sprintf("127.0.0.1:%d", oddp)}, true},
		{"broadcast ok", gomavlib.EndpointUDPBroadcast{BroadcastAddress: "127.255.255.255:5600", LocalAddress: fmt.Sprintf("127.0.0.1:%d", oddp)}, true},
		{"tcp server then bad udp server", gomavlib.EndpointTCPServer{Address: fmt.Sprintf("127.0.0.1:%d", oddp)}, false},
	}
	for _, od := range odd {
		eps := []gomavlib.EndpointConf{od.conf}
		if !od.udp {
			eps = append(eps, gomavlib.EndpointUDPServer{Address: "not an address"})
		}
		node, err := gomavlib.NewNode(gomavlib.NodeConf{Endpoints: eps, Dialect: d, OutVersion: gomavlib.V2, OutSystemID: 10, HeartbeatDisable: true})
		verdict := "ok"
		if err == nil {
			col := scn.NewCollector(node, 0, false)
			if !scn.CloseWithin(node, 8*time.Second) {
				verdict = "CLOSE-DID-NOT-RETURN"
			}
			select {
			case <-col.Done:
			case <-time.After(3 * time.Second):
			}
		}
		free := canListenTCP
		if od.udp {
			free = canListenUDP
		}
		if verdict == "ok" && !free(fmt.Sprintf("127.0.0.1:%d", oddp)) {
			if err != nil {
				verdict = "PORT-LEFT-BOUND-AFTER-FAILED-INIT (" + err.Error() + ")"
			} else {
				verdict = "PORT-LEFT-BOUND-AFTER-CLOSE"
			}
		}
		if l := scn.Leaks(); l != "" && verdict == "ok" {
			verdict = "GOROUTINE-LEAK " + l
		}
		o.Add("initialisation outcome agnostic: "+od.name, verdict, "expect", "ok", "odd-config "+od.name)
	}
	// ---- the same for odd but representable node settings (extreme numbers): whether NewNode
	// accepts them or not, nothing is left behind: ports free, no goroutine, and the custom
	// transport closed exactly once when the node ran and was closed ----
	cdial := shipped("common")
	type oddNode struct {
		name string
		mod  func(*gomavlib.NodeConf)
	}
	oddNodes := []oddNode{
		{"stream request frequency 65535", func(c *gomavlib.NodeConf) { c.StreamRequestEnable = true; c.StreamRequestFrequency = 65535 }},
		{"stream request frequency 65536", func(c *gomavlib.NodeConf) { c.StreamRequestEnable = true; c.StreamRequestFrequency = 65536 }},
		{"stream request frequency -1", func(c *gomavlib.NodeConf) { c.StreamRequestEnable = true; c.StreamRequestFrequency = -1 }},
		{"stream request frequency 2^40", func(c *gomavlib.NodeConf) { c.StreamRequestEnable = true; c.StreamRequestFrequency = 1 << 40 }},
		{"system id 255, component id 255", func(c *gomavlib.NodeConf) { c.OutSystemID = 255; c.OutComponentID = 255 }},
		{"heartbeat types 255", func(c *gomavlib.NodeConf) {
			c.HeartbeatDisable = false
			c.HeartbeatSystemType = 255
			c.HeartbeatAutopilotType = 255
			c.HeartbeatPeriod = time.Hour
		}},
		{"heartbeat system type -1", func(c *gomavlib.NodeConf) {
			c.HeartbeatDisable = false
			c.HeartbeatSystemType = -1
			c.HeartbeatPeriod = time.Hour
		}},
		{"v1 with an outgoing key", func(c *gomavlib.NodeConf) { c.OutVersion = gomavlib.V1; c.OutKey = frame.NewV2Key(make([]byte, 32)) }},
		{"system id 0", func(c *gomavlib.NodeConf) { c.OutSystemID = 0 }},
		{"timeouts of one nanosecond", func(c *gomavlib.NodeConf) { c.ReadTimeout = 1; c.WriteTimeout = 1; c.IdleTimeout = 1 }},
	}
	for oi, on := range oddNodes {
		np := 28000 + int(hx.Seed()%100)*20 + oi // a port of its own: one leak does not fail the next setting
		pipe := scn.NewPipe("odd")
		conf := gomavlib.NodeConf{Endpoints: []gomavlib.EndpointConf{
			gomavlib.EndpointTCPServer{Address: fmt.Sprintf("127.0.0.1:%d", np)},
			gomavlib.EndpointUDPServer{Address: fmt.Sprintf("127.0.0.1:%d", np)},
			gomavlib.EndpointCustom{ReadWriteCloser: pipe},
		}, Dialect: cdial, OutVersion: gomavlib.V2, OutSystemID: 10, HeartbeatDisable: true}
		on.mod(&conf)
		verdict := "ok"
		var node *gomavlib.Node
		var err error
		if pn := hx.Safe(func() string { node, err = gomavlib.NewNode(conf); return "" }); pn == "panic" {
			verdict = "NEWNODE-PANICKED"
		} else if err == nil {
			col := scn.NewCollector(node, 0, false)
			col.Wait(func() bool { return len(col.Channels()) > 0 })
			if !scn.CloseWithin(node, 8*time.Second) {
				verdict = "CLOSE-DID-NOT-RETURN"
			}
			select {
			case <-col.Done:
			case <-time.After(3 * time.Second):
			}
			if n := atomic.LoadInt32(&pipe.Closes); verdict == "ok" && n != 1 {
				verdict = fmt.Sprintf("CUSTOM-TRANSPORT-CLOSED-%d-TIMES", n)
			}
		}
		what := "AFTER-CLOSE"
		if err != nil {
			what = "AFTER-FAILED-INIT (" + err.Error() + ")"
		}
		if verdict == "ok" && !canListenTCP(fmt.Sprintf("127.0.0.1:%d", np)) {
			verdict = "TCP-PORT-LEFT-BOUND-" + what
		}
		if verdict == "ok" && !canListenUDP(fmt.Sprintf("127.0.0.1:%d", np)) {
			verdict = "UDP-PORT-LEFT-BOUND-" + what
		}
		if l := scn.Leaks(); l != "" && verdict == "ok" {
			verdict = "GOROUTINE-LEAK-" + what + " " + l
		}
		o.Add("initialisation outcome agnostic: "+on.name, verdict, "expect", "ok", "odd-node "+on.name)
	}
	// ---- client endpoints whose address can never be reached (a UDP client with an IPv6 literal under
	// udp4, a TCP client to a closed port) beside a custom endpoint: Close returns while they retry ----
	for _, ep := range []gomavlib.EndpointConf{
		gomavlib.EndpointUDPClient{Address: "[::1]:5600"},
		gomavlib.EndpointTCPClient{Address: "127.0.0.1:1"},
		gomavlib.EndpointUDPClient{Address: "256.1.1.1:5600"},
	} {
		p := scn.NewPipe("beside")
		verdict := "ok"
		node, err := gomavlib.NewNode(gomavlib.NodeConf{Endpoints: []gomavlib.EndpointConf{gomavlib.EndpointCustom{ReadWriteCloser: p}, ep},
			Dialect: d, OutVersion: gomavlib.V2, OutSystemID: 10, HeartbeatDisable: true})
		if err == nil {
			col := scn.NewCollector(node, 0, false)
			time.Sleep(150 * time.Millisecond) // a few failed attempts
			if !scn.CloseWithin(node, 8*time.Second) {
				verdict = "CLOSE-DID-NOT-RETURN"
			} else {
				select {
				case <-col.Done:
				case <-time.After(3 * time.Second):
					verdict = "EVENTS-NOT-CLOSED"
				}
			}
			if l := scn.Leaks(); l != "" && verdict == "ok" {
				verdict = "GOROUTINE-LEAK " + l
			}
		}
		o.Add("close while a client endpoint cannot connect", verdict, "expect", "ok", fmt.Sprintf("unreachable %T %v", ep, ep))
	}
	// ---- stream requests enabled and the same ArduPilot sender heard several times (and other senders
	// after it) before Close: Close returns, nothing is left ----
	{
		cd := shipped("common")
		cdrw := &dialect.ReadWriter{Dialect: cd}
		cdrw.Initialize() //nolint:errcheck
		p := scn.NewPipe("sr")
		node := newNode([]*scn.Pipe{p}, func(c *gomavlib.NodeConf) { c.Dialect = cd; c.StreamRequestEnable = true })
		col := scn.NewCollector(node, 0, false)
		col.Wait(func() bool { return len(col.Channels()) > 0 })
		hb := hx.RandMessage(hx.NewRand(121), cd.Messages[0], 0)
		for _, m := range cd.Messages {
			if m.GetID() == 0 {
				hb = hx.RandMessage(hx.NewRand(121), m, 0)
			}
		}
		reflect.ValueOf(hb).Elem().FieldByName("Autopilot").SetUint(3)
		mrw := cdrw.GetMessage(0)
		for i := 0; i < 6; i++ {
			f := &frame.V2Frame{SequenceNumber: byte(i), SystemID: byte(1 + i/4), ComponentID: 1, Message: mrw.Write(hb, true)}
			f.Checksum = f.GenerateChecksum(mrw.CRCExtra())
			p.Feed(frameBytes(cdrw, f))
		}
		time.Sleep(200 * time.Millisecond)
		verdict := "ok"
		if !scn.CloseWithin(node, 8*time.Second) {
			verdict = "CLOSE-DID-NOT-RETURN"
		} else {
			select {
			case <-col.Done:
			case <-time.After(3 * time.Second):
				verdict = "EVENTS-NOT-CLOSED"
			}
		}
		if l := scn.Leaks(); l != "" && verdict == "ok" {
			verdict = "GOROUTINE-LEAK " + l
		}
		o.Add("close after repeated heartbeats of one ArduPilot sender", verdict, "expect", "ok", "close-after-stream-requests")
	}
	// ---- a Node value used for a second life: Initialize, Close, Initialize again (new transport),
	// Close again: the second Close returns as the first did, and releases as much ----
	for rep := 0; rep < 2; rep++ {
		np := 28500 + int(hx.Seed()%100)*5 + rep
		p1 := scn.NewPipe("life1")
		nd := &gomavlib.Node{Endpoints: []gomavlib.EndpointConf{
			gomavlib.EndpointCustom{ReadWriteCloser: p1},
			gomavlib.EndpointTCPServer{Address: fmt.Sprintf("127.0.0.1:%d", np)},
		}, Dialect: d, OutVersion: gomavlib.V2, OutSystemID: 10, HeartbeatDisable: rep == 0, HeartbeatPeriod: 50 * time.Millisecond}
		verdict := "ok"
		for life := 1; life <= 3 && verdict == "ok"; life++ {
			if err := nd.Initialize(); err != nil {
				verdict = fmt.Sprintf("LIFE-%d-INITIALIZE-FAILED %v", life, err)
				break
			}
			col := scn.NewCollector(nd, 0, false)
			col.Wait(func() bool { return len(col.Channels()) > 0 })
			nd.WriteMessageAll(hx.RandMessage(hx.NewRand(12), d.Messages[0], 2)) //nolint:errcheck
			if !scn.CloseWithin(nd, 8*time.Second) {
				verdict = fmt.Sprintf("LIFE-%d-CLOSE-DID-NOT-RETURN", life)
				break
			}
			select {
			case <-col.Done:
			case <-time.After(3 * time.Second):
				verdict = fmt.Sprintf("LIFE-%d-EVENTS-NOT-CLOSED", life)
			}
			if verdict == "ok" && !canListenTCP(fmt.Sprintf("127.0.0.1:%d", np)) {
				verdict = fmt.Sprintf("LIFE-%d-PORT-LEFT-BOUND", life)
			}
			// the next life gets a transport of its own
			nd.Endpoints[0] = gomavlib.EndpointCustom{ReadWriteCloser: scn.NewPipe(fmt.Sprintf("life%d", life+1))}
		}
		if l := scn.Leaks(); l != "" && verdict == "ok" {
			verdict = "GOROUTINE-LEAK " + l
		}
		o.Add("a Node value used again after Close", verdict, "expect", "ok", fmt.Sprintf("node-reuse rep=%d", rep))
	}
	runtime.GOMAXPROCS(runtime.NumCPU())
}
