package main

import (
	"errors"
	"fmt"
	"io"
	"net"
	"reflect"
	"runtime"
	"strconv"
	"sync"
	"sync/atomic"
	"time"

	"github.com/bluenviron/gomavlib/v3"
	"github.com/bluenviron/gomavlib/v3/pkg/dialect"
	"github.com/bluenviron/gomavlib/v3/pkg/dialects/minimal"
	"github.com/bluenviron/gomavlib/v3/pkg/frame"
	"github.com/bluenviron/gomavlib/v3/pkg/message"

	"verifharness/hx"
	"verifharness/scn"
)

func init() { gens["C13"] = genC13 }

func waitMarker(p *scn.Pipe, drw *dialect.ReadWriter) bool {
	return p.WaitWrites(func(ws [][]byte) bool {
		if len(ws) == 0 {
			return false
		}
		frs, err := scn.DecodeWire(ws[len(ws)-1:], drw)
		return err == nil && serialOf(frs[0]) == markerSerial
	})
}

func seqInts(a, b int) []int {
	var l []int
	for i := a; i < b; i++ {
		l = append(l, i)
	}
	return l
}

func genC13(o *hx.Out, tier string) {
	r := hx.NewRand(13)
	d := shipped("minimal")
	drw := &dialect.ReadWriter{Dialect: d}
	drw.Initialize() //nolint:errcheck
	nscen := 24
	if tier == "thorough" {
		nscen = 400
	}
	// (a) a channel whose transport stops accepting writes
	for sc := 0; sc < nscen; sc++ {
		runtime.GOMAXPROCS([]int{1, 2, 16}[sc%3])
		k := 2 + r.Intn(3)
		pipes := make([]*scn.Pipe, k)
		for i := range pipes {
			pipes[i] = scn.NewPipe(fmt.Sprintf("p%d", i))
		}
		node := newNode(pipes, func(c *gomavlib.NodeConf) { c.Dialect = d })
		col := scn.NewCollector(node, 0, false)
		chs, ok := openChannels(col, pipes)
		if !ok {
			o.Add("stall", "CHANNELS-NOT-OPEN", "fanchk", "eq", "-", "-")
			node.Close()
			continue
		}
		stalled := r.Intn(k)
		pipes[stalled].BlockWrites()
		n := 100 + r.Intn(150)
		t0 := time.Now()
		var submitted int32
		subDone := make(chan struct{})
		go func() {
			defer close(subDone)
			for i := 0; i < n; i++ {
				node.WriteMessageAll(serialMsg(1000 + i)) //nolint:errcheck
				atomic.AddInt32(&submitted, 1)
				if i%32 == 31 {
					time.Sleep(200 * time.Microsecond) // let the healthy writers drain: only the stalled one may overflow
				}
			}
		}()
		select {
		case <-subDone:
		case <-time.After(scn.Timeout):
			// a stalled channel must not block those who submit
			scn.NoteExpired()
			o.Add("stall: submitters never block", fmt.Sprintf("SUBMIT-BLOCKED after %d of %d writes", atomic.LoadInt32(&submitted), n),
				"fanchk", "eq", joinInts(seqInts(1000, 1000+n)), joinInts(seqInts(1000, 1000+n)))
			pipes[stalled].UnblockWrites()
			<-subDone
			scn.CloseWithin(node, 10*time.Second)
			continue
		}
		submitTime := time.Since(t0)
		for i := range chs {
			if i != stalled {
				node.WriteMessageTo(chs[i], serialMsg(markerSerial)) //nolint:errcheck
			}
		}
		for c := 0; c < k; c++ {
			if c == stalled {
				continue
			}
			got := waitMarker(pipes[c], drw)
			serials, verdict := checkWire(pipes[c].Writes(), drw, nil, 10)
			if !got {
				verdict = "MARKER-TIMEOUT (other channel starved by the stalled one)"
			}
			if submitTime > 5*time.Second {
				verdict = "SUBMITTERS-DELAYED " + submitTime.String()
			}
			o.Add("stall: healthy channel gets everything", verdict, "fanchk", "eq",
				joinInts(append(seqInts(1000, 1000+n), markerSerial)), joinInts(serials))
		}
		// events still flow while a channel is stalled
		before := col.Count()
		pipes[(stalled+1)%k].Feed(frameBytes(drw, validFrame(r, drw, hx.RandMessage(r, d.Messages[0], 2), true, nil)))
		if !col.Wait(func() bool { return col.Count() > before }) {
			o.Add("stall: events still delivered", "EVENT-DELIVERY-STALLED", "fanchk", "eq", "-", "-")
		}
		// release: the stalled channel holds a bounded, ordered part of what was written
		pipes[stalled].UnblockWrites()
		// the writer held one item and the queue 64 more: wait until they are out before the marker
		pipes[stalled].WaitWrites(func(ws [][]byte) bool { return len(ws) >= 65 })
		node.WriteMessageTo(chs[stalled], serialMsg(markerSerial)) //nolint:errcheck
		got := waitMarker(pipes[stalled], drw)
		serials, verdict := checkWire(pipes[stalled].Writes(), drw, nil, 10)
		if !got {
			verdict = "MARKER-TIMEOUT"
		} else if len(serials) > 1+64+1 {
			verdict = "BACKLOG-EXCEEDS-QUEUE " + strconv.Itoa(len(serials))
		}
		o.Add("stall: bounded ordered backlog", verdict, "fanchk", "sub",
			joinInts(append(seqInts(1000, 1000+n), markerSerial)), joinInts(serials))
		scn.CloseWithin(node, 10*time.Second)
	}
	// (b) a transport write failing at the k-th call, (c) unencodable items at any position
	nfail := 40
	if tier == "thorough" {
		nfail = 600
	}
	for sc := 0; sc < nfail; sc++ {
		runtime.GOMAXPROCS([]int{1, 2, 16}[sc%3])
		v1 := sc%4 == 3
		pipes := []*scn.Pipe{scn.NewPipe("a"), scn.NewPipe("b")}
		node := newNode(pipes, func(c *gomavlib.NodeConf) {
			c.Dialect = d
			if v1 {
				c.OutVersion = gomavlib.V1
			}
		})
		col := scn.NewCollector(node, 0, false)
		chs, ok := openChannels(col, pipes)
		if !ok {
			o.Add("fail", "CHANNELS-NOT-OPEN", "fanchk", "eq", "-", "-")
			node.Close()
			continue
		}
		n := 20 + r.Intn(30)
		failAt := map[int]bool{}
		if sc%2 == 0 {
			for j := 0; j < 1+r.Intn(3); j++ {
				kf := 1 + r.Intn(n)
				failAt[kf] = true
				pipes[0].FailWriteAt(kf)
			}
		}
		var expA, expB []int
		wcallA := 0
		subs := map[int]submission{markerSerial: {}}
		for i := 0; i < n; i++ {
			bad := sc%2 == 1 && r.Intn(5) == 0
			if bad {
				if r.Intn(2) == 0 {
					// forwarded frame the link cannot carry: a v1 frame with an id above 255
					node.WriteFrameAll(&frame.V1Frame{SequenceNumber: byte(i), SystemID: 77, ComponentID: 1, //nolint:errcheck
						Message: &message.MessageRaw{ID: 300, Payload: []byte{byte(i)}}})
				} else if v1 {
					// id above 255 on a v1 link: encodable by the node, refused by the frame
					node.WriteMessageAll(&minimal.MessageProtocolVersion{Version: uint16(i)}) //nolint:errcheck
				} else {
					// raw message whose id is not in the dialect
					node.WriteMessageAll(&message.MessageRaw{ID: 99999, Payload: []byte{byte(i)}}) //nolint:errcheck
				}
				continue
			}
			if r.Intn(2) == 0 {
				// a forwarded frame (keeps its own header)
				sub := submission{serial: 1000 + i, kind: 3, isFrame: true, hdr: [3]byte{byte(r.Intn(256)), byte(100 + r.Intn(100)), byte(r.Intn(256))}}
				subs[sub.serial] = sub
				mrw := drw.GetMessage(0)
				raw := mrw.Write(serialMsg(sub.serial), true)
				f := &frame.V2Frame{SequenceNumber: sub.hdr[0], SystemID: sub.hdr[1], ComponentID: sub.hdr[2], Message: raw}
				f.Checksum = f.GenerateChecksum(mrw.CRCExtra())
				node.WriteFrameAll(f) //nolint:errcheck
			} else {
				subs[1000+i] = submission{serial: 1000 + i}
				node.WriteMessageAll(serialMsg(1000 + i)) //nolint:errcheck
			}
			wcallA++
			if !failAt[wcallA] {
				expA = append(expA, 1000+i)
			}
			expB = append(expB, 1000+i)
			if i%16 == 15 {
				time.Sleep(100 * time.Microsecond)
			}
		}
		for i := range chs {
			node.WriteMessageTo(chs[i], serialMsg(markerSerial)) //nolint:errcheck
		}
		wcallA++
		if failAt[wcallA] { // the marker itself hit a scripted failure: send another one
			node.WriteMessageTo(chs[0], serialMsg(markerSerial)) //nolint:errcheck
		}
		for c, exp := range [][]int{expA, expB} {
			got := waitMarker(pipes[c], drw)
			serials, verdict := checkWire(pipes[c].Writes(), drw, subs, 10)
			if !got {
				verdict = "MARKER-TIMEOUT (channel open but discarding output)"
			}
			class := "failing transport write"
			if sc%2 == 1 {
				class = "unencodable item"
			}
			o.Add(class, verdict, "fanchk", "eq", joinInts(append(append([]int(nil), exp...), markerSerial)), joinInts(serials))
		}
		scn.CloseWithin(node, 10*time.Second)
	}
	// (d) the transport stalls a Write and then the read side fails: the channel must still close
	// (with its cause), the others go on, Close() returns
	nsf := 6
	if tier == "thorough" {
		nsf = 60
	}
	for sc := 0; sc < nsf; sc++ {
		runtime.GOMAXPROCS([]int{1, 2, 16}[sc%3])
		// the sick channel is a serial device (its transport is closed by the channel itself; a custom
		// endpoint's transport is only closed by Node.Close), the healthy one a custom endpoint
		var smu sync.Mutex
		var devs []*scn.Pipe
		gomavlib.VerifSetSerialOpenFunc(func(device string, baud int) (io.ReadWriteCloser, error) {
			p := scn.NewPipe(device)
			smu.Lock()
			devs = append(devs, p)
			smu.Unlock()
			return p, nil
		})
		well := scn.NewPipe("well")
		node, err := gomavlib.NewNode(gomavlib.NodeConf{Endpoints: []gomavlib.EndpointConf{
			gomavlib.EndpointSerial{Device: "/dev/sick", Baud: 57600}, gomavlib.EndpointCustom{ReadWriteCloser: well}},
			Dialect: d, OutVersion: gomavlib.V2, OutSystemID: 10, HeartbeatDisable: true})
		if err != nil {
			o.Add("stall then read failure", "INIT-FAILED", "expect", "ok", "-")
			continue
		}
		col := scn.NewCollector(node, 0, false)
		var sick *scn.Pipe
		ok := col.Wait(func() bool {
			smu.Lock()
			defer smu.Unlock()
			if len(devs) >= 2 {
				sick = devs[1] // the first open is the probe of initialize
			}
			return sick != nil && len(col.Channels()) >= 2
		})
		if !ok {
			o.Add("stall then read failure", "CHANNELS-NOT-OPEN", "expect", "ok", "-")
			node.Close()
			continue
		}
		pipes := []*scn.Pipe{sick, well}
		chs := make([]*gomavlib.Channel, 2)
		for _, ch := range col.Channels() {
			if _, isSerial := ch.Endpoint().Conf().(gomavlib.EndpointSerial); isSerial {
				chs[0] = ch
			} else {
				chs[1] = ch
			}
		}
		kth := 1 + r.Intn(4)
		for i := 0; i < kth-1; i++ {
			node.WriteMessageTo(chs[0], serialMsg(i)) //nolint:errcheck
		}
		pipes[0].WaitWrites(func(ws [][]byte) bool { return len(ws) >= kth-1 })
		pipes[0].BlockWrites()
		node.WriteMessageTo(chs[0], serialMsg(100)) //nolint:errcheck
		dl := time.Now().Add(2 * time.Second)
		for atomic.LoadInt32(&pipes[0].BlockedIn) == 0 && time.Now().Before(dl) {
			time.Sleep(200 * time.Microsecond)
		}
		pipes[0].FeedErr(errors.New("peer hung up"))
		verdict := "ok"
		if !col.Wait(func() bool {
			for _, e := range col.Events(chs[0]) {
				if _, ok := e.(*gomavlib.EventChannelClose); ok {
					return true
				}
			}
			return false
		}) {
			verdict = "NO-CLOSE-EVENT-FOR-THE-FAILED-CHANNEL (write stalled at call " + strconv.Itoa(kth) + ")"
		}
		node.WriteMessageAll(serialMsg(markerSerial)) //nolint:errcheck
		if !waitMarker(pipes[1], drw) && verdict == "ok" {
			verdict = "HEALTHY-CHANNEL-STOPPED"
		}
		if !scn.CloseWithin(node, 8*time.Second) {
			verdict += " | CLOSE-DID-NOT-RETURN"
		}
		o.Add("stall then read failure", verdict, "expect", "ok", fmt.Sprintf("stall-then-fail k=%d", kth))
	}
	// ---- stream requests enabled: an ArduPilot heartbeat arrives on a channel whose transport is stalled
	// and whose backlog is full; the requests for it are discarded like any other item for that channel,
	// the node goes on serving the other channel ----
	{
		cd := shipped("common")
		cdrw := &dialect.ReadWriter{Dialect: cd}
		cdrw.Initialize() //nolint:errcheck
		pipes := []*scn.Pipe{scn.NewPipe("stalled"), scn.NewPipe("healthy")}
		node := newNode(pipes, func(c *gomavlib.NodeConf) { c.Dialect = cd; c.StreamRequestEnable = true })
		col := scn.NewCollector(node, 0, false)
		verdict := "ok"
		var chs []*gomavlib.Channel
		col.Wait(func() bool { chs = col.Channels(); return len(chs) == 2 })
		if len(chs) != 2 {
			verdict = "CHANNELS-NOT-OPEN"
		} else {
			pipes[0].BlockWrites()
			var hbm message.Message
			for _, m := range cd.Messages {
				if m.GetID() == 0 {
					hbm = hx.RandMessage(r, m, 0)
				}
			}
			for i := 0; i < 80; i++ { // more than the queue holds, to every channel
				node.WriteMessageAll(hbm) //nolint:errcheck
			}
			time.Sleep(100 * time.Millisecond)
			reflect.ValueOf(hbm).Elem().FieldByName("Autopilot").SetUint(3)
			mrw := cdrw.GetMessage(0)
			f := &frame.V2Frame{SystemID: 1, ComponentID: 1, Message: mrw.Write(hbm, true)}
			f.Checksum = f.GenerateChecksum(mrw.CRCExtra())
			pipes[0].Feed(frameBytes(cdrw, f)) // heard on the stalled channel
			time.Sleep(100 * time.Millisecond)
			before := len(pipes[1].Writes())
			done := make(chan struct{})
			go func() {
				for i := 0; i < 20; i++ {
					node.WriteMessageAll(hbm) //nolint:errcheck
				}
				close(done)
			}()
			select {
			case <-done:
				if !pipes[1].WaitWrites(func(ws [][]byte) bool { return len(ws) >= before+20 }) {
					verdict = fmt.Sprintf("HEALTHY-CHANNEL-STARVED %d of 20 later writes", len(pipes[1].Writes())-before)
				}
			case <-time.After(3 * time.Second):
				verdict = "NODE-STALLED WriteMessageAll does not return"
			}
			pipes[0].UnblockWrites()
		}
		scn.CloseWithin(node, 10*time.Second)
		o.Add("stream requests for a stalled channel with a full backlog", verdict, "expect", "ok", "sr-on-stalled-channel")
	}
	// ---- a TCP peer stops reading for longer than the write time-out while the node has more to
	// send than the socket buffers hold (writes are cut by the deadline, some in the middle of a
	// frame), then reads again: the channel is closed and reported, or later writes arrive ----
	{
		cd := shipped("common")
		cdrw := &dialect.ReadWriter{Dialect: cd}
		cdrw.Initialize() //nolint:errcheck
		addr := fmt.Sprintf("127.0.0.1:%d", 29000+int(hx.Seed()%100)*10)
		verdict := "ok"
		node, err := gomavlib.NewNode(gomavlib.NodeConf{Endpoints: []gomavlib.EndpointConf{gomavlib.EndpointTCPServer{Address: addr}},
			Dialect: cd, OutVersion: gomavlib.V2, OutSystemID: 10, HeartbeatDisable: true, WriteTimeout: 200 * time.Millisecond})
		if err != nil {
			verdict = "NODE-FAILED " + err.Error()
		} else {
			col := scn.NewCollector(node, 0, false)
			peer, err := net.Dial("tcp4", addr)
			if err != nil {
				verdict = "DIAL-FAILED"
			} else {
				hb := cdrw.GetMessage(0)
				hbFrame := func(mode uint32) []byte {
					m := hx.RandMessage(r, cd.Messages[0], 0)
					reflect.ValueOf(m).Elem().FieldByName("CustomMode").SetUint(uint64(mode))
					f := &frame.V2Frame{SystemID: 9, ComponentID: 1, Message: hb.Write(m, true)}
					f.Checksum = f.GenerateChecksum(hb.CRCExtra())
					return frameBytes(cdrw, f)
				}
				peer.Write(hbFrame(1)) //nolint:errcheck
				col.Wait(func() bool { return len(col.Channels()) > 0 })
				chs := col.Channels()
				if len(chs) == 0 {
					verdict = "CHANNEL-NOT-OPEN"
				} else {
					ch := chs[0]
					var big message.Message
					for _, m := range cd.Messages {
						if m.GetID() == 131 { // ENCAPSULATED_DATA: 255 bytes
							big = hx.RandMessage(r, m, 1)
						}
					}
					t0 := time.Now()
					sent := 0
					for time.Since(t0) < 2500*time.Millisecond {
						for i := 0; i < 32; i++ {
							node.WriteMessageTo(ch, big) //nolint:errcheck
							sent++
						}
						time.Sleep(200 * time.Microsecond)
					}
					time.Sleep(700 * time.Millisecond) // at least one write has run into the deadline by now
					// the peer reads again, everything there is
					var mu sync.Mutex
					var got []uint32
					last := time.Now()
					go func() {
						rd := &frame.Reader{ByteReader: peer, DialectRW: cdrw}
						rd.Initialize() //nolint:errcheck
						for {
							fr, err := rd.Read()
							mu.Lock()
							last = time.Now()
							mu.Unlock()
							if err != nil {
								var pe frame.ReadError
								if errors.As(err, &pe) {
									continue
								}
								return
							}
							if fr.GetMessage().GetID() == 0 {
								mode := uint32(reflect.ValueOf(fr.GetMessage()).Elem().FieldByName("CustomMode").Uint())
								mu.Lock()
								got = append(got, mode)
								mu.Unlock()
							}
						}
					}()
					for {
						time.Sleep(100 * time.Millisecond)
						mu.Lock()
						quiet := time.Since(last) > 700*time.Millisecond
						mu.Unlock()
						if quiet {
							break
						}
					}
					peer.Write(hbFrame(2)) //nolint:errcheck
					const markers = 10
					for i := 0; i < markers; i++ {
						m := hx.RandMessage(r, cd.Messages[0], 0)
						reflect.ValueOf(m).Elem().FieldByName("CustomMode").SetUint(uint64(0xC1300000 + i))
						node.WriteMessageTo(ch, m) //nolint:errcheck
						time.Sleep(30 * time.Millisecond)
					}
					time.Sleep(1200 * time.Millisecond)
					closed := false
					for _, e := range col.Events(ch) {
						if _, ok := e.(*gomavlib.EventChannelClose); ok {
							closed = true
						}
					}
					mu.Lock()
					nm := 0
					for _, g := range got {
						if g >= 0xC1300000 && g < 0xC1300000+markers {
							nm++
						}
					}
					mu.Unlock()
					if !closed && nm != markers {
						verdict = fmt.Sprintf("OPEN-BUT-DISCARDING-OUTPUT %d of %d later writes arrived, no close event (flooded %d messages)", nm, markers, sent)
					}
				}
				peer.Close()
			}
			scn.CloseWithin(node, 10*time.Second)
		}
		o.Add("tcp peer stalls past the write time-out, then resumes", verdict, "expect", "ok", "tcp-stall-resume")
	}
	runtime.GOMAXPROCS(runtime.NumCPU())
}
