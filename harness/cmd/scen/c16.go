package main

import (
	"bytes"
	"errors"
	"fmt"
	"math/rand"
	"net"
	"reflect"
	"strings"
	"sync"
	"time"

	"github.com/bluenviron/gomavlib/v3"
	"github.com/bluenviron/gomavlib/v3/pkg/dialect"
	"github.com/bluenviron/gomavlib/v3/pkg/dialects/common"
	"github.com/bluenviron/gomavlib/v3/pkg/dialects/minimal"
	"github.com/bluenviron/gomavlib/v3/pkg/frame"
	"github.com/bluenviron/gomavlib/v3/pkg/message"

	"verifharness/hx"
	"verifharness/scn"
)

func init() { gens["C16"] = genC16 }

// MessageFakeHeartbeat has id 0 but is not the standard heartbeat (CRC_EXTRA differs from 50).
type MessageFakeHeartbeat struct {
	Type      uint8
	Autopilot uint8
	Extra     uint16
}

func (*MessageFakeHeartbeat) GetID() uint32 { return 0 }

// MessageFakeRds has id 66 but is not the standard REQUEST_DATA_STREAM.
type MessageFakeRds struct {
	TargetSystem    uint8
	TargetComponent uint8
	ReqStreamId     uint16
	ReqMessageRate  uint16
	StartStop       uint8
}

func (*MessageFakeRds) GetID() uint32 { return 66 }

var c16Fallback *dialect.ReadWriter

type c16Dialect struct {
	name string
	d    *dialect.Dialect
	drw  *dialect.ReadWriter
}

func c16Dialects(o *hx.Out) []c16Dialect {
	ds := []c16Dialect{
		{"c16-minimal", shipped("minimal"), nil},
		{"c16-common", shipped("common"), nil},
		{"c16-custom-std", &dialect.Dialect{Version: 7, Messages: []message.Message{
			&common.MessageSysStatus{}, &minimal.MessageHeartbeat{}, &common.MessageRequestDataStream{}}}, nil},
		{"c16-no-heartbeat", &dialect.Dialect{Version: 2, Messages: []message.Message{
			&common.MessageSysStatus{}, &common.MessageRequestDataStream{}}}, nil},
		{"c16-fake-heartbeat", &dialect.Dialect{Version: 2, Messages: []message.Message{
			&MessageFakeHeartbeat{}, &common.MessageSysStatus{}, &common.MessageRequestDataStream{}}}, nil},
		{"c16-fake-rds", &dialect.Dialect{Version: 5, Messages: []message.Message{
			&minimal.MessageHeartbeat{}, &common.MessageSysStatus{}, &MessageFakeRds{}}}, nil},
	}
	for i := range ds {
		ds[i].drw = defineDialect(o, ds[i].name, ds[i].d)
	}
	c16Fallback = ds[0].drw
	return ds
}

// heartbeatRun runs a node for about nticks periods and reports what each pipe received.
func heartbeatRun(cd *c16Dialect, disable bool, systype, ap int, k int, period time.Duration, nticks float64) string {
	pipes := make([]*scn.Pipe, k)
	for i := range pipes {
		pipes[i] = scn.NewPipe(fmt.Sprintf("h%d", i))
	}
	start := time.Now()
	node := newNode(pipes, func(c *gomavlib.NodeConf) {
		c.HeartbeatDisable = disable
		c.HeartbeatPeriod = period
		c.HeartbeatSystemType = systype
		c.HeartbeatAutopilotType = ap
		if cd != nil {
			c.Dialect = cd.d
		}
	})
	col := scn.NewCollector(node, 0, false)
	time.Sleep(time.Duration(float64(period) * nticks))
	var per []string
	timing := ""
	for _, p := range pipes {
		ws := p.Writes()
		ts := p.WriteTimes()
		if len(ws) == 0 {
			per = append(per, "off")
			continue
		}
		if cd == nil {
			per = append(per, "WRITES-WITHOUT-DIALECT")
			continue
		}
		frs, err := scn.DecodeWire(ws, cd.drw)
		if err != nil {
			per = append(per, "NOT-ATOMIC "+err.Error())
			continue
		}
		vals := map[string]bool{}
		first := ""
		for _, fr := range frs {
			v := fmt.Sprintf("%d %s", fr.GetMessage().GetID(), hx.Value(fr.GetMessage()))
			if first == "" {
				first = v
			}
			vals[v] = true
		}
		if len(vals) != 1 || !strings.HasPrefix(first, "0 ") {
			per = append(per, fmt.Sprintf("MIXED %v", vals))
			continue
		}
		per = append(per, "on "+strings.TrimPrefix(first, "0 "))
		// spacing: ticks come one period apart, the first one a period after start
		n := len(ts)
		if float64(n) < nticks-1.5 || float64(n) > nticks+0.5 {
			timing = fmt.Sprintf(" TIMING count=%d over %.1f periods", n, nticks)
		}
		if d := ts[0].Sub(start); d < period*6/10 {
			timing = fmt.Sprintf(" TIMING first heartbeat after %v, period %v", d, period)
		}
		for i := 1; i < n; i++ {
			if g := ts[i].Sub(ts[i-1]); g < period*5/10 || g > period*15/10 {
				timing = fmt.Sprintf(" TIMING gap %v, period %v", g, period)
			}
		}
	}
	node.Close()
	<-col.Done
	for _, x := range per[1:] {
		if x != per[0] {
			return "PIPES-DIFFER " + strings.Join(per, " / ")
		}
	}
	return per[0] + timing
}

type srOp struct {
	kind          byte // H, O
	ch            int
	sys, comp, ap int
	at            time.Duration // thorough timed scenario only
}

// streamRun feeds the history to a node and reports, per channel, the requests written and the events.
func streamRun(r *rand.Rand, cd *c16Dialect, enable bool, freq int, k int, ops []srOp, timed bool) (string, string) {
	pipes := make([]*scn.Pipe, k)
	for i := range pipes {
		pipes[i] = scn.NewPipe(fmt.Sprintf("s%d", i))
	}
	node := newNode(pipes, func(c *gomavlib.NodeConf) {
		c.Dialect = cd.d
		c.StreamRequestEnable = enable
		c.StreamRequestFrequency = freq
	})
	start := time.Now()
	col := scn.NewCollector(node, 0, false)
	chs, ok := openChannels(col, pipes)
	if !ok {
		node.Close()
		return "CHANNELS-NOT-OPEN", ""
	}
	var other message.Message
	for _, m := range cd.d.Messages {
		if m.GetID() != 0 {
			other = m
		}
	}
	fed := make([]int, k)
	var toks []string
	ticks := 0
	for _, op := range ops {
		now := 0
		if timed {
			time.Sleep(time.Until(start.Add(op.at)))
			now = int((time.Since(start) + 500*time.Millisecond) / time.Second)
			for now >= 30*(ticks+1) {
				ticks++
				toks = append(toks, fmt.Sprintf("T:%d", 30*ticks))
			}
		}
		var msg message.Message
		if op.kind == 'H' {
			if _, fake := cd.d.Messages[0].(*MessageFakeHeartbeat); fake {
				msg = &MessageFakeHeartbeat{Type: 1, Autopilot: uint8(op.ap)}
			} else {
				msg = &minimal.MessageHeartbeat{Type: minimal.MAV_TYPE(r.Intn(30)), Autopilot: minimal.MAV_AUTOPILOT(op.ap),
					CustomMode: r.Uint32(), SystemStatus: 4, MavlinkVersion: 3}
			}
			toks = append(toks, fmt.Sprintf("H:%d:%d:%d:%d:%d", now, op.ch, op.sys, op.comp, op.ap))
		} else {
			msg = hx.RandMessage(r, other, 2)
			toks = append(toks, fmt.Sprintf("O:%d", op.ch))
		}
		mrw := cd.drw.GetMessage(msg.GetID())
		if mrw == nil { // not in the node's dialect: arrives as a raw message
			mrw = c16Fallback.GetMessage(msg.GetID())
		}
		v2 := r.Intn(3) != 0 || msg.GetID() > 255
		raw := mrw.Write(msg, v2)
		var fr frame.Frame
		if v2 {
			f := &frame.V2Frame{SequenceNumber: byte(r.Intn(256)), SystemID: byte(op.sys), ComponentID: byte(op.comp), Message: raw}
			f.Checksum = f.GenerateChecksum(mrw.CRCExtra())
			fr = f
		} else {
			f := &frame.V1Frame{SequenceNumber: byte(r.Intn(256)), SystemID: byte(op.sys), ComponentID: byte(op.comp), Message: raw}
			f.Checksum = f.GenerateChecksum(mrw.CRCExtra())
			fr = f
		}
		pipes[op.ch].Feed(frameBytes(cd.drw, fr))
		fed[op.ch]++
		if timed {
			// keep the history sequential when real time matters
			col.Wait(func() bool { return countFrames(col.Events(chs[op.ch])) == fed[op.ch] })
		}
	}
	col.Wait(func() bool {
		for i := range pipes {
			if countFrames(col.Events(chs[i])) < fed[i] {
				return false
			}
		}
		return true
	})
	// flush: a marker goes through every channel's write queue behind the requests
	marker := hx.RandMessage(r, cd.d.Messages[0], 0)
	node.WriteMessageAll(marker) //nolint:errcheck
	var per []string
	for i, p := range pipes {
		want := -1
		p.WaitWrites(func(ws [][]byte) bool {
			if len(ws) == 0 {
				return false
			}
			frs, err := scn.DecodeWire(ws[len(ws)-1:], cd.drw)
			if err != nil || len(frs) != 1 {
				return false
			}
			want = len(ws)
			return frs[0].GetMessage().GetID() == marker.GetID()
		})
		ws := p.Writes()
		wire := "NO-MARKER"
		if want > 0 {
			frs, err := scn.DecodeWire(ws[:len(ws)-1], cd.drw)
			if err != nil {
				wire = "NOT-ATOMIC"
			} else {
				var vs []string
				for _, fr := range frs {
					if fr.GetMessage().GetID() != 66 {
						vs = append(vs, fmt.Sprintf("X%d", fr.GetMessage().GetID()))
					} else if fr.GetSystemID() != 10 || fr.GetComponentID() != 1 {
						vs = append(vs, "BAD-SENDER")
					} else {
						vs = append(vs, hx.Value(fr.GetMessage()))
					}
				}
				wire = strings.Join(vs, "|")
			}
		}
		var evs []string
		for _, e := range col.Events(chs[i]) {
			switch e := e.(type) {
			case *gomavlib.EventChannelOpen:
			case *gomavlib.EventFrame:
				evs = append(evs, "F")
			case *gomavlib.EventStreamRequested:
				evs = append(evs, fmt.Sprintf("S%d.%d", e.SystemID, e.ComponentID))
			default:
				evs = append(evs, fmt.Sprintf("%T", e))
			}
		}
		per = append(per, "wire="+wire+" ev="+strings.Join(evs, " "))
	}
	node.Close()
	<-col.Done
	return strings.Join(per, " ; "), strings.Join(toks, " ")
}

func countFrames(evs []gomavlib.Event) int {
	n := 0
	for _, e := range evs {
		if _, ok := e.(*gomavlib.EventFrame); ok {
			n++
		}
	}
	return n
}

func genC16(o *hx.Out, tier string) {
	r := hx.NewRand(16)
	ds := c16Dialects(o)

	// (3) the 30 s rule in real time, started first and run beside the rest: entries younger than
	// 30 s survive the cleaner's tick (no second burst), older ones are requested again.
	// quick: 34 s, one tick; thorough: 63 s, two ticks (a cleaned entry is requested again).
	type timedRes struct{ impl, toks string }
	timedDone := make(chan timedRes, 1)
	go func() {
		s := time.Second
		ops := []srOp{
			{'H', 0, 1, 1, 3, 2 * s}, {'H', 1, 2, 1, 3, 5 * s}, {'H', 0, 3, 1, 3, 12 * s}, {'H', 0, 1, 1, 3, 12 * s},
			{'H', 0, 1, 1, 3, 33500 * time.Millisecond}, {'H', 1, 2, 1, 3, 33500 * time.Millisecond}, {'H', 0, 3, 1, 3, 33500 * time.Millisecond},
		}
		if tier == "thorough" {
			ops = []srOp{
				{'H', 0, 1, 1, 3, 2 * s}, {'H', 1, 2, 1, 3, 5 * s}, {'H', 0, 3, 1, 3, 12 * s}, {'H', 0, 1, 1, 3, 12 * s},
				{'H', 1, 2, 1, 3, 26 * s}, {'H', 0, 1, 1, 3, 36 * s}, {'H', 1, 2, 1, 3, 36 * s}, {'H', 0, 3, 1, 3, 36 * s},
				{'H', 0, 3, 1, 3, 63 * s}, {'H', 0, 1, 1, 3, 63 * s},
			}
		}
		impl, toks := streamRun(hx.NewRand(1616), &ds[1], true, 4, 2, ops, true)
		timedDone <- timedRes{impl, toks}
	}()

	// (1) heartbeats
	type hbc struct {
		d       int // -1: no dialect
		disable bool
	}
	cfgs := []hbc{{0, false}, {1, false}, {2, false}, {3, false}, {4, false}, {5, false}, {-1, false}, {0, true}, {2, true}}
	nrand := 4
	if tier == "thorough" {
		nrand = 40
	}
	for i := 0; i < nrand; i++ {
		cfgs = append(cfgs, hbc{r.Intn(len(ds)+1) - 1, r.Intn(4) == 0})
	}
	type job struct {
		c       hbc
		systype int
		ap      int
		k       int
		period  time.Duration
		res     string
	}
	jobs := make([]*job, len(cfgs))
	for i, c := range cfgs {
		st := r.Intn(256)
		if r.Intn(4) == 0 {
			st = 0
		}
		jobs[i] = &job{c: c, systype: st, ap: r.Intn(256), k: 1 + r.Intn(3), period: time.Duration(80+r.Intn(80)) * time.Millisecond}
	}
	// the runs are independent: four at a time
	sem := make(chan struct{}, 4)
	done := make(chan struct{})
	for _, j := range jobs {
		j := j
		go func() {
			sem <- struct{}{}
			defer func() { <-sem; done <- struct{}{} }()
			var cd *c16Dialect
			if j.c.d >= 0 {
				cd = &ds[j.c.d]
			}
			for attempt := 0; attempt < 3; attempt++ {
				j.res = heartbeatRun(cd, j.c.disable, j.systype, j.ap, j.k, j.period, 5.5)
				if !strings.Contains(j.res, "TIMING") {
					break
				}
			}
		}()
	}
	for range jobs {
		<-done
	}
	for _, j := range jobs {
		name, ver := "-", 0
		if j.c.d >= 0 {
			name, ver = ds[j.c.d].name, int(ds[j.c.d].d.Version)
		}
		o.Add("heartbeat config", j.res, "hb", b2s(j.c.disable), name, u(uint64(j.systype)), u(uint64(j.ap)), u(uint64(ver)))
	}

	// (1b) two nodes alive at the same time on the SAME dialect object, with different settings:
	// each sends its own heartbeats (what a node puts into its heartbeat is its own)
	for rep := 0; rep < 2; rep++ {
		cd := &ds[1+rep]
		type side struct {
			systype, ap int
			res         string
		}
		sides := []*side{{systype: 6, ap: 8}, {systype: 2, ap: 3}, {systype: 0, ap: 12}}
		var wg sync.WaitGroup
		for _, sd := range sides {
			sd := sd
			wg.Add(1)
			go func() {
				defer wg.Done()
				for attempt := 0; attempt < 3; attempt++ {
					sd.res = heartbeatRun(cd, false, sd.systype, sd.ap, 1, 100*time.Millisecond, 5.5)
					if !strings.Contains(sd.res, "TIMING") {
						break
					}
				}
			}()
		}
		wg.Wait()
		for _, sd := range sides {
			o.Add("heartbeat config, several nodes on one dialect object", sd.res, "hb", "0", cd.name, u(uint64(sd.systype)), u(uint64(sd.ap)), u(uint64(cd.d.Version)))
		}
	}

	// (1c) stream requests on a TCP server endpoint with two peers: A's heartbeat is answered once;
	// peer B leaves (its channel closes); A's next heartbeat, well within 30 s, is not answered again
	{
		cd := &ds[1]
		addr := fmt.Sprintf("127.0.0.1:%d", 29700+int(hx.Seed()%100)*3)
		verdict := "ok"
		node, err := gomavlib.NewNode(gomavlib.NodeConf{Endpoints: []gomavlib.EndpointConf{gomavlib.EndpointTCPServer{Address: addr}},
			Dialect: cd.d, OutVersion: gomavlib.V2, OutSystemID: 10, HeartbeatDisable: true, StreamRequestEnable: true})
		if err != nil {
			verdict = "NODE-FAILED " + err.Error()
		} else {
			col := scn.NewCollector(node, 0, false)
			a, errA := net.Dial("tcp4", addr)
			b, errB := net.Dial("tcp4", addr)
			if errA != nil || errB != nil {
				verdict = "DIAL-FAILED"
			} else {
				hbFrame := func(sys byte) []byte {
					mrw := cd.drw.GetMessage(0)
					m := hx.RandMessage(r, cd.d.Messages[0], 0)
					for _, mm := range cd.d.Messages {
						if mm.GetID() == 0 {
							m = hx.RandMessage(r, mm, 0)
						}
					}
					reflect.ValueOf(m).Elem().FieldByName("Autopilot").SetUint(3)
					f := &frame.V2Frame{SystemID: sys, ComponentID: 1, Message: mrw.Write(m, true)}
					f.Checksum = f.GenerateChecksum(mrw.CRCExtra())
					bs, _ := (func() ([]byte, error) {
						var buf bytes.Buffer
						w := &frame.Writer{ByteWriter: &buf, DialectRW: cd.drw}
						if err := w.Initialize(); err != nil {
							return nil, err
						}
						err := w.Write(f)
						return buf.Bytes(), err
					})()
					return bs
				}
				countReq := func(c net.Conn, wait time.Duration) int {
					c.SetReadDeadline(time.Now().Add(wait)) //nolint:errcheck
					rd := &frame.Reader{ByteReader: c, DialectRW: cd.drw}
					rd.Initialize() //nolint:errcheck
					n := 0
					for {
						fr, err := rd.Read()
						if err != nil {
							var pe frame.ReadError
							if errors.As(err, &pe) {
								continue
							}
							return n
						}
						if fr.GetMessage().GetID() == 66 {
							n++
						}
					}
				}
				a.Write(hbFrame(1)) //nolint:errcheck
				b.Write(hbFrame(2)) //nolint:errcheck
				first := countReq(a, 700*time.Millisecond)
				b.Close()
				time.Sleep(300 * time.Millisecond)
				a.Write(hbFrame(1)) //nolint:errcheck
				second := countReq(a, 700*time.Millisecond)
				if first != 7 || second != 0 {
					verdict = fmt.Sprintf("REQUESTS-TO-A first=%d (want 7) after-sibling-left=%d (want 0)", first, second)
				}
				a.Close()
			}
			scn.CloseWithin(node, 10*time.Second)
			<-col.Done
		}
		o.Add("stream requests on a tcp server, a sibling connection leaves", verdict, "expect", "ok", "sr-tcp-sibling")
	}

	// (2) stream requests: arrival histories
	nscen := 40
	if tier == "thorough" {
		nscen = 600
	}
	for sc := 0; sc < nscen; sc++ {
		cd := &ds[[]int{1, 1, 1, 2, 2, 2, 0, 3, 4, 5}[r.Intn(10)]]
		enable := r.Intn(5) != 0
		freq := []int{0, 1, 4, 10, 300, 65535}[r.Intn(6)]
		k := 1 + r.Intn(3)
		var ops []srOp
		for i := 0; i < 5+r.Intn(40); i++ {
			// senders include the node's own system id (10), its own identity (10.1) and the extremes
			op := srOp{kind: 'H', ch: r.Intn(k), sys: []int{1, 2, 10, 255}[r.Intn(4)], comp: []int{1, 2, 255}[r.Intn(3)], ap: []int{3, 3, 3, 0, 8, 12}[r.Intn(6)]}
			if r.Intn(3) == 0 {
				op.kind = 'O'
			}
			ops = append(ops, op)
		}
		impl, toks := streamRun(r, cd, enable, freq, k, ops, false)
		o.Add("stream request history", impl, "srobs", b2s(enable), cd.name, u(uint64(freq)), u(uint64(k)), toks)
	}

	tr := <-timedDone
	o.Add("stream request 30 s rule (real time)", tr.impl, "srobs", "1", ds[1].name, "4", "2", tr.toks)
}
