package main

import (
	"bytes"
	"errors"
	"fmt"
	"github.com/bluenviron/gomavlib/v3/pkg/dialects/minimal"
	"io"
	"net"
	"strconv"
	"strings"
	"sync"
	"sync/atomic"
	"syscall"
	"time"

	"github.com/bluenviron/gomavlib/v3"
	"github.com/bluenviron/gomavlib/v3/pkg/dialect"
	"github.com/bluenviron/gomavlib/v3/pkg/frame"
	"github.com/bluenviron/gomavlib/v3/pkg/message"
	"github.com/bluenviron/gomavlib/v3/pkg/timednetconn"

	"verifharness/hx"
	"verifharness/scn"
)

func init() { gens["C14"] = genC14 }

type causeErr struct{ code int }

func (c causeErr) Error() string { return fmt.Sprintf("scripted cause %d", c.code) }

// recConn records the calls made on a net.Conn.
type recConn struct {
	mu    sync.Mutex
	calls []string
	bad   string
	// scripted result of the next Read / Write of the wrapped connection (n < 0: the plain result)
	nextN   int
	nextErr error
}

type timeoutErr struct{}

func (timeoutErr) Error() string   { return "scripted i/o timeout" }
func (timeoutErr) Timeout() bool   { return true }
func (timeoutErr) Temporary() bool { return true }

func (r *recConn) rec(s string) {
	r.mu.Lock()
	r.calls = append(r.calls, s)
	r.mu.Unlock()
}
func (r *recConn) Read(b []byte) (int, error) {
	r.rec("R")
	if r.nextN >= 0 {
		return r.nextN, r.nextErr
	}
	return 1, nil
}
func (r *recConn) Write(b []byte) (int, error) {
	r.rec("W")
	if r.nextN >= 0 {
		return r.nextN, r.nextErr
	}
	return len(b), nil
}
func (r *recConn) Close() error         { return nil }
func (r *recConn) LocalAddr() net.Addr  { return nil }
func (r *recConn) RemoteAddr() net.Addr { return nil }
func (r *recConn) SetDeadline(t time.Time) error {
	r.rec("SD")
	return nil
}
func (r *recConn) SetReadDeadline(t time.Time) error {
	d := time.Until(t)
	if d < 400*time.Millisecond || d > 600*time.Millisecond {
		r.bad = fmt.Sprintf("read deadline %v from now, want 500ms", d)
	}
	r.rec("SR")
	return nil
}
func (r *recConn) SetWriteDeadline(t time.Time) error {
	d := time.Until(t)
	if d < 200*time.Millisecond || d > 400*time.Millisecond {
		r.bad = fmt.Sprintf("write deadline %v from now, want 300ms", d)
	}
	r.rec("SW")
	return nil
}

func isTimeout(err error) bool {
	var ne net.Error
	return errors.As(err, &ne) && ne.Timeout()
}

func genC14(o *hx.Out, tier string) {
	r := hx.NewRand(14)
	d := shipped("minimal")
	drw := &dialect.ReadWriter{Dialect: d}
	drw.Initialize() //nolint:errcheck
	period := 60 * time.Millisecond
	gomavlib.VerifSetReconnectPeriod(period)
	frameB := frameBytes(drw, validFrame(r, drw, hx.RandMessage(r, d.Messages[0], 2), true, nil))

	// (1) deadline wrapper: every Read / Write arms a fresh deadline first
	for i := 0; i < 40; i++ {
		rc := &recConn{nextN: -1}
		c := timednetconn.New(500*time.Millisecond, 300*time.Millisecond, rc)
		var ops []string
		// the wrapper hands the result of the wrapped call back unchanged and keeps no memory of it:
		// after a failed, timed-out or partial Read / Write the next call is made like the first
		check := func(n int, err error) {
			if rc.nextN >= 0 && (n != rc.nextN || err != rc.nextErr) {
				rc.bad = fmt.Sprintf("wrapped call returned (%d, %v), wrapper returned (%d, %v)", rc.nextN, rc.nextErr, n, err)
			}
		}
		for j := 0; j < 1+r.Intn(12); j++ {
			rc.nextN, rc.nextErr = -1, nil
			if i >= 20 {
				switch r.Intn(5) {
				case 0:
					rc.nextN, rc.nextErr = 0, timeoutErr{}
				case 1:
					rc.nextN, rc.nextErr = 1, timeoutErr{} // cut by the deadline after part of the buffer
				case 2:
					rc.nextN, rc.nextErr = 0, causeErr{7}
				case 3:
					rc.nextN, rc.nextErr = 2, causeErr{8}
				}
			}
			if i%10 == 3 {
				// time passes between two calls (the application was busy): the deadline is counted
				// from the call, not from the previous reception
				time.Sleep(150 * time.Millisecond)
			}
			if r.Intn(2) == 0 {
				ops = append(ops, "R")
				check(c.Read(make([]byte, 4)))
			} else {
				ops = append(ops, "W")
				check(c.Write([]byte{1, 2, 3, 4}))
			}
		}
		impl := strings.Join(rc.calls, " ")
		if rc.bad != "" {
			impl += " " + rc.bad
		}
		o.Add("timednetconn call trace", impl, "tcalls", strings.Join(ops, " "))
	}

	// (2) serial endpoint (fake devices): scripted open failures and channel ends
	nser := 8
	if tier == "thorough" {
		nser = 80
	}
	for sc := 0; sc < nser; sc++ {
		n := 2 + r.Intn(5)
		var script []string
		type outcome struct {
			ok    bool
			cause int
		}
		var outs []outcome
		for i := 0; i < n; i++ {
			if r.Intn(3) == 0 {
				outs = append(outs, outcome{false, 0})
				script = append(script, "F")
			} else {
				c := 2 + r.Intn(50)
				outs = append(outs, outcome{true, c})
				script = append(script, "K"+strconv.Itoa(c))
			}
		}
		var mu sync.Mutex
		var trace []string
		calls := 0
		last := time.Now()
		mark := func(tok string) {
			trace = append(trace, tok)
			last = time.Now()
		}
		exhausted := make(chan struct{})
		var once sync.Once
		gomavlib.VerifSetSerialOpenFunc(func(device string, baud int) (io.ReadWriteCloser, error) {
			mu.Lock()
			defer mu.Unlock()
			calls++
			if calls == 1 { // probe of initialize
				return scn.NewPipe("probe"), nil
			}
			idx := calls - 2
			if idx >= len(outs) {
				once.Do(func() { close(exhausted) })
				return nil, errors.New("script exhausted")
			}
			if idx > 0 && time.Since(last) >= period*7/10 {
				trace = append(trace, "B")
			}
			mark("A")
			if !outs[idx].ok {
				return nil, errors.New("scripted open failure")
			}
			p := scn.NewPipe(fmt.Sprintf("dev%d", idx))
			cause := outs[idx].cause
			stuck := cause%2 == 1 // on these devices a Write is stuck in the transport when the read fails
			if stuck {
				p.BlockWrites()
			}
			go func() {
				p.Feed(frameB)
				if stuck {
					// the frame event makes the application write; wait until that write sits in the device
					dl := time.Now().Add(time.Second)
					for atomic.LoadInt32(&p.BlockedIn) == 0 && time.Now().Before(dl) {
						time.Sleep(200 * time.Microsecond)
					}
				} else {
					time.Sleep(time.Duration(1+cause%5) * time.Millisecond)
				}
				p.FeedErr(causeErr{cause})
			}()
			return p, nil
		})
		start := time.Now()
		mu.Lock()
		last = start
		mu.Unlock()
		node, err := gomavlib.NewNode(gomavlib.NodeConf{Endpoints: []gomavlib.EndpointConf{gomavlib.EndpointSerial{Device: "/dev/fake", Baud: 57600}},
			Dialect: d, OutVersion: gomavlib.V2, OutSystemID: 10, HeartbeatDisable: true})
		if err != nil {
			o.Add("serial lifecycle", "INIT-FAILED", "provider", "1", strings.Join(script, " "))
			continue
		}
		evdone := make(chan struct{})
		go func() {
			defer close(evdone)
			open := 0
			for evt := range node.Events() {
				mu.Lock()
				switch e := evt.(type) {
				case *gomavlib.EventChannelOpen:
					open++
					if open > 1 {
						trace = append(trace, "TWO-CHANNELS-OPEN")
					}
					trace = append(trace, "O")
				case *gomavlib.EventFrame:
					mu.Unlock()
					node.WriteMessageAll(&minimal.MessageHeartbeat{Type: 1, MavlinkVersion: 3}) //nolint:errcheck
					mu.Lock()
				case *gomavlib.EventChannelClose:
					open--
					var ce causeErr
					if errors.As(e.Error, &ce) {
						mark("C" + strconv.Itoa(ce.code))
					} else {
						mark(fmt.Sprintf("C?(%v)", e.Error))
					}
				}
				mu.Unlock()
			}
		}()
		select {
		case <-exhausted:
		case <-time.After(scn.Timeout):
			scn.NoteExpired()
			mu.Lock()
			trace = append(trace, "TIMEOUT")
			mu.Unlock()
		}
		closed := scn.CloseWithin(node, 10*time.Second)
		select {
		case <-evdone:
		case <-time.After(5 * time.Second):
			scn.NoteExpired()
		}
		mu.Lock()
		impl := strings.Join(trace, " ")
		if !closed {
			impl += " CLOSE-DID-NOT-RETURN"
		}
		mu.Unlock()
		o.Add("serial lifecycle", impl, "provider", "1", strings.Join(script, " "))
	}

	// (3) custom endpoint: the close event carries the cause
	for sc := 0; sc < 10; sc++ {
		p := scn.NewPipe("c")
		node := newNode([]*scn.Pipe{p}, func(c *gomavlib.NodeConf) { c.Dialect = d })
		col := scn.NewCollector(node, 0, false)
		cause := 2 + r.Intn(90)
		for i := 0; i < r.Intn(4); i++ {
			p.Feed(frameB)
		}
		p.FeedErr(causeErr{cause})
		impl := "NO-CLOSE-EVENT"
		col.Wait(func() bool {
			for _, ch := range col.Channels() {
				for _, e := range col.Events(ch) {
					if ce, ok := e.(*gomavlib.EventChannelClose); ok {
						var c causeErr
						if errors.As(ce.Error, &c) {
							impl = "O C" + strconv.Itoa(c.code)
						} else {
							impl = fmt.Sprintf("close carries %v", ce.Error)
						}
						return true
					}
				}
			}
			return false
		})
		scn.CloseWithin(node, 10*time.Second)
		o.Add("custom close cause", impl, "lives", "1", "K"+strconv.Itoa(cause))
	}

	// (3b) custom endpoint, several lives: after a read fault the endpoint hands its transport out
	// again; the next channel delivers what the transport delivers next and reports the transport's
	// next fault, not something left over from the channel before it
	for sc := 0; sc < 4; sc++ {
		p := scn.NewPipe("c2")
		node := newNode([]*scn.Pipe{p}, func(c *gomavlib.NodeConf) { c.Dialect = d })
		col := scn.NewCollector(node, 0, false)
		nlives := 2 + sc%2
		var want []string
		for l := 0; l < nlives; l++ {
			nf := 1 + r.Intn(3)
			for i := 0; i < nf; i++ {
				p.Feed(frameB)
			}
			cause := 100*(l+1) + r.Intn(90)
			p.FeedErr(causeErr{cause})
			want = append(want, fmt.Sprintf("O F%d C%d", nf, cause))
		}
		col.Wait(func() bool {
			n := 0
			for _, ch := range col.Channels() {
				for _, e := range col.Events(ch) {
					if _, ok := e.(*gomavlib.EventChannelClose); ok {
						n++
					}
				}
			}
			return n >= nlives
		})
		var got []string
		for _, ch := range col.Channels() {
			nf := 0
			cl := ""
			for _, e := range col.Events(ch) {
				switch e := e.(type) {
				case *gomavlib.EventFrame:
					nf++
				case *gomavlib.EventChannelClose:
					var c causeErr
					if errors.As(e.Error, &c) {
						cl = " C" + strconv.Itoa(c.code)
					} else {
						cl = fmt.Sprintf(" C(%v)", e.Error)
					}
				}
			}
			got = append(got, fmt.Sprintf("O F%d%s", nf, cl))
		}
		if len(got) > nlives {
			got = got[:nlives] // the channel opened after the last fault is still waiting for input
		}
		verdict := "ok"
		if strings.Join(got, " | ") != strings.Join(want, " | ") {
			verdict = "LIVES " + strings.Join(got, " | ") + " WANT " + strings.Join(want, " | ")
		}
		scn.CloseWithin(node, 10*time.Second)
		o.Add("custom endpoint, several lives", verdict, "expect", "ok", fmt.Sprintf("custom-lives sc=%d", sc))
	}

	// (4) TCP client: the server accepts, sends a frame and hangs up, k times, with a period
	// during which nothing listens
	base := 25000 + int(hx.Seed()%100)*20
	ncl := 2
	if tier == "thorough" {
		ncl = 12
	}
	for sc := 0; sc < ncl; sc++ {
		addr := fmt.Sprintf("127.0.0.1:%d", base+sc%5)
		k := 2 + r.Intn(3)
		node, err := gomavlib.NewNode(gomavlib.NodeConf{Endpoints: []gomavlib.EndpointConf{gomavlib.EndpointTCPClient{Address: addr}},
			Dialect: d, OutVersion: gomavlib.V2, OutSystemID: 10, HeartbeatDisable: true})
		if err != nil {
			continue
		}
		col := scn.NewCollector(node, 0, false)
		time.Sleep(period * 2) // attempts fail: nothing listens yet
		l, err := net.Listen("tcp4", addr)
		if err != nil {
			node.Close()
			continue
		}
		// the model is asked about k connections; a client that stops reconnecting leaves the
		// observed trace short
		var script []string
		for i := 0; i < k; i++ {
			script = append(script, "K0")
		}
		for i := 0; i < k; i++ {
			l.(*net.TCPListener).SetDeadline(time.Now().Add(scn.Timeout)) //nolint:errcheck
			c, err := l.Accept()
			if err != nil {
				scn.NoteExpired()
				break
			}
			c.Write(frameB) //nolint:errcheck
			time.Sleep(5 * time.Millisecond)
			c.Close()
		}
		l.Close()
		want := 2 * k
		col.Wait(func() bool {
			n := 0
			for _, ch := range col.Channels() {
				for _, e := range col.Events(ch) {
					switch e.(type) {
					case *gomavlib.EventChannelOpen, *gomavlib.EventChannelClose:
						n++
					}
				}
			}
			return n >= want
		})
		var tr []string
		open := 0
		for _, ch := range col.Channels() {
			for _, e := range col.Events(ch) {
				switch ev := e.(type) {
				case *gomavlib.EventChannelOpen:
					open++
					if open > 1 {
						tr = append(tr, "TWO-CHANNELS-OPEN")
					}
					tr = append(tr, "O")
				case *gomavlib.EventChannelClose:
					open--
					if ev.Error == nil {
						tr = append(tr, "C-without-cause")
					} else {
						tr = append(tr, "C0")
					}
				}
			}
		}
		scn.CloseWithin(node, 10*time.Second)
		if len(tr) > want {
			tr = tr[:want]
		}
		o.Add("tcp client reconnects", strings.Join(tr, " "), "lives", "1", strings.Join(script, " "))
	}

	// (4b) TCP client against a server whose accept queue is full: connection attempts end in dial
	// time-outs (not refusals); once the server accepts again the client must get through
	nsat := 1
	if tier == "thorough" {
		nsat = 3
	}
	for sc := 0; sc < nsat; sc++ {
		ln, err := net.Listen("tcp4", "127.0.0.1:0")
		if err != nil {
			continue
		}
		addr := ln.Addr().String()
		saturated := false
		var fillers []net.Conn
		if rc, err := ln.(*net.TCPListener).SyscallConn(); err == nil {
			rc.Control(func(fd uintptr) { syscall.Listen(int(fd), 0) }) //nolint:errcheck
			for i := 0; i < 8; i++ {
				c, err := net.DialTimeout("tcp4", addr, 250*time.Millisecond)
				if err != nil {
					if ne, ok := err.(net.Error); ok && ne.Timeout() {
						saturated = true
					}
					break
				}
				fillers = append(fillers, c)
			}
		}
		if !saturated { // this kernel does not drop the SYNs: nothing to observe
			for _, c := range fillers {
				c.Close()
			}
			ln.Close()
			continue
		}
		node, err := gomavlib.NewNode(gomavlib.NodeConf{Endpoints: []gomavlib.EndpointConf{gomavlib.EndpointTCPClient{Address: addr}},
			Dialect: d, OutVersion: gomavlib.V2, OutSystemID: 10, HeartbeatDisable: true, ReadTimeout: 200 * time.Millisecond})
		if err != nil {
			ln.Close()
			continue
		}
		col := scn.NewCollector(node, 0, false)
		time.Sleep(900 * time.Millisecond) // several attempts time out
		early := col.Count()
		accepted := make(chan net.Conn, 16)
		go func() {
			for {
				c, err := ln.Accept()
				if err != nil {
					return
				}
				accepted <- c
			}
		}()
		impl := ""
		if early != 0 {
			impl = "EVENT-WHILE-SATURATED "
		}
		if col.Wait(func() bool { return col.Count() > early }) {
			impl += "O"
		} else {
			impl += "NEVER-CONNECTED-AFTER-DIAL-TIMEOUTS"
		}
		for _, c := range fillers {
			c.Close()
		}
		// the server hangs up on everybody: the channel closes with a cause
		time.Sleep(20 * time.Millisecond)
	drain:
		for {
			select {
			case c := <-accepted:
				c.Close()
			default:
				break drain
			}
		}
		if strings.HasSuffix(impl, "O") {
			if col.Wait(func() bool {
				for _, ch := range col.Channels() {
					for _, e := range col.Events(ch) {
						if _, ok := e.(*gomavlib.EventChannelClose); ok {
							return true
						}
					}
				}
				return false
			}) {
				impl += " C0"
			}
		}
		ln.Close()
		scn.CloseWithin(node, 10*time.Second)
		o.Add("tcp client: dial time-outs, then the server accepts", impl, "lives", "1", "F F F K0")
	}

	// (5) TCP server: every peer its own channel; a leaving peer closes only its channel; accepting goes on;
	//     idle expiry: a silent peer is closed after the idle timeout, a talking one is not
	idle := 200 * time.Millisecond
	nsv := 2
	if tier == "thorough" {
		nsv = 10
	}
	for sc := 0; sc < nsv; sc++ {
		for _, udp := range []bool{false, true} {
			addr := fmt.Sprintf("127.0.0.1:%d", base+10+sc%5)
			var ep gomavlib.EndpointConf = gomavlib.EndpointTCPServer{Address: addr}
			network := "tcp4"
			if udp {
				ep = gomavlib.EndpointUDPServer{Address: addr}
				network = "udp4"
			}
			node, err := gomavlib.NewNode(gomavlib.NodeConf{Endpoints: []gomavlib.EndpointConf{ep}, Dialect: d,
				OutVersion: gomavlib.V2, OutSystemID: 10, HeartbeatDisable: true, IdleTimeout: idle})
			if err != nil {
				o.Add("server idle expiry", "INIT-FAILED "+err.Error(), "expect", "ok", fmt.Sprintf("server udp=%v sc=%d", udp, sc))
				continue
			}
			col := scn.NewCollector(node, 0, false)
			talker, _ := net.Dial(network, addr)
			silent, _ := net.Dial(network, addr)
			talker.Write(frameB) //nolint:errcheck
			silent.Write(frameB) //nolint:errcheck
			t0 := time.Now()
			stop := make(chan struct{})
			go func() {
				for {
					select {
					case <-stop:
						return
					case <-time.After(idle / 4):
						talker.Write(frameB) //nolint:errcheck
					}
				}
			}()
			verdict := "ok"
			if !col.Wait(func() bool { return len(col.Channels()) >= 2 }) {
				verdict = "PEERS-DID-NOT-GET-THEIR-OWN-CHANNELS"
			}
			// wait for exactly one close (the silent peer), inside [idle, 2*idle + slack]
			var closedAt time.Duration
			var closeErr error
			col.Wait(func() bool {
				for _, ch := range col.Channels() {
					for _, e := range col.Events(ch) {
						if ce, ok := e.(*gomavlib.EventChannelClose); ok {
							closedAt = time.Since(t0)
							closeErr = ce.Error
							return true
						}
					}
				}
				return time.Since(t0) > 4*idle+2*time.Second
			})
			if closeErr == nil {
				verdict = "SILENT-CHANNEL-NOT-CLOSED"
			} else if !isTimeout(closeErr) {
				verdict = fmt.Sprintf("CLOSE-CAUSE-NOT-A-TIMEOUT %v", closeErr)
			} else if closedAt < idle*9/10 {
				verdict = fmt.Sprintf("CLOSED-TOO-EARLY %v", closedAt)
			} else if closedAt > 2*idle+1500*time.Millisecond {
				verdict = fmt.Sprintf("CLOSED-TOO-LATE %v", closedAt)
			}
			// the talking peer is still open after 3*idle
			time.Sleep(time.Until(t0.Add(3 * idle)))
			nclose := 0
			for _, ch := range col.Channels() {
				for _, e := range col.Events(ch) {
					if _, ok := e.(*gomavlib.EventChannelClose); ok {
						nclose++
					}
				}
			}
			if nclose > 1 {
				verdict += " | TALKING-CHANNEL-CLOSED"
			}
			// a new peer is still accepted
			nb := len(col.Channels())
			third, _ := net.Dial(network, addr)
			third.Write(frameB) //nolint:errcheck
			if !col.Wait(func() bool { return len(col.Channels()) > nb }) {
				verdict += " | SERVER-STOPPED-ACCEPTING"
			}
			close(stop)
			talker.Close()
			silent.Close()
			third.Close()
			scn.CloseWithin(node, 10*time.Second)
			o.Add("server idle expiry", verdict, "expect", "ok", fmt.Sprintf("server udp=%v sc=%d", udp, sc))
		}
	}
	// (6) idle expiry against the timed model: a peer sends in bursts, then stops; the channel must
	// be closed one idle time-out after its LAST reception (the model gets the arrival times)
	nid := 2
	if tier == "thorough" {
		nid = 12
	}
	for sc := 0; sc < nid; sc++ {
		for kind := 0; kind < 4; kind++ { // tcp server, udp server, tcp client, udp client
			udp := kind%2 == 1
			client := kind >= 2
			dms := 400
			addr := fmt.Sprintf("127.0.0.1:%d", base+16+sc%3)
			network := "tcp4"
			if udp {
				network = "udp4"
			}
			var ep gomavlib.EndpointConf
			var ln net.Listener
			var pc net.PacketConn
			switch kind {
			case 0:
				ep = gomavlib.EndpointTCPServer{Address: addr}
			case 1:
				ep = gomavlib.EndpointUDPServer{Address: addr}
			case 2:
				l, err := net.Listen("tcp4", "127.0.0.1:0")
				if err != nil {
					continue
				}
				ln = l
				ep = gomavlib.EndpointTCPClient{Address: l.Addr().String()}
			case 3:
				c, err := net.ListenPacket("udp4", "127.0.0.1:0")
				if err != nil {
					continue
				}
				pc = c
				ep = gomavlib.EndpointUDPClient{Address: c.LocalAddr().String()}
			}
			closeListeners := func() {
				if ln != nil {
					ln.Close()
				}
				if pc != nil {
					pc.Close()
				}
			}
			node, err := gomavlib.NewNode(gomavlib.NodeConf{Endpoints: []gomavlib.EndpointConf{ep}, Dialect: d,
				OutVersion: gomavlib.V2, OutSystemID: 10, HeartbeatDisable: true, IdleTimeout: time.Duration(dms) * time.Millisecond})
			if err != nil {
				closeListeners()
				continue
			}
			col := scn.NewCollector(node, 0, false)
			// the peer's side of the link: something to Write frames to
			var peer io.WriteCloser
			switch kind {
			case 0, 1:
				c, err := net.Dial(network, addr)
				if err == nil {
					peer = c
				}
			case 2:
				ln.(*net.TCPListener).SetDeadline(time.Now().Add(5 * time.Second)) //nolint:errcheck
				c, err := ln.Accept()
				if err == nil {
					peer = c
				}
			case 3:
				// the node speaks first so that the peer learns its address
				col.Wait(func() bool { return len(col.Channels()) > 0 })
				node.WriteMessageAll(&minimal.MessageHeartbeat{MavlinkVersion: 3}) //nolint:errcheck
				buf := make([]byte, 512)
				pc.SetReadDeadline(time.Now().Add(5 * time.Second)) //nolint:errcheck
				if _, from, err := pc.ReadFrom(buf); err == nil {
					peer = packetPeer{pc, from}
				}
			}
			if peer == nil {
				node.Close()
				closeListeners()
				continue
			}
			// offsets in ms after the first frame: gaps below the time-out, some below half of it
			offs := []int{0}
			cur := 0
			if sc == 0 {
				// a short gap, then a long one that crosses the deadline armed at the start: a deadline
				// that is not armed afresh for every call expires here although frames keep coming
				offs = []int{0, 150, 450, 500}
				cur = 500
			} else {
				for i := 0; i < 2+r.Intn(4); i++ {
					cur += []int{60, 100, 150, 320, 340}[r.Intn(5)]
					offs = append(offs, cur)
				}
			}
			t0 := time.Now()
			var arr []string
			for _, off := range offs {
				time.Sleep(time.Until(t0.Add(time.Duration(off) * time.Millisecond)))
				peer.Write(frameB) //nolint:errcheck
				arr = append(arr, strconv.Itoa(int(time.Since(t0)/time.Millisecond)))
			}
			impl := "NOT-CLOSED"
			col.Wait(func() bool {
				for _, ch := range col.Channels() {
					for _, e := range col.Events(ch) {
						if ce, ok := e.(*gomavlib.EventChannelClose); ok {
							if isTimeout(ce.Error) {
								impl = strconv.Itoa(int(time.Since(t0) / time.Millisecond))
							} else {
								impl = fmt.Sprintf("CLOSE-CAUSE-NOT-A-TIMEOUT %v", ce.Error)
							}
							return true
						}
					}
				}
				return time.Since(t0) > time.Duration(cur+4*dms)*time.Millisecond+2*time.Second
			})
			peer.Close()
			scn.CloseWithin(node, 10*time.Second)
			closeListeners()
			o.Add(fmt.Sprintf("idle expiry after bursts udp=%v client=%v", udp, client), impl, "idle", strconv.Itoa(dms), strings.Join(arr, " "))
		}
	}

	// (6b) the idle time-out left unset while the read time-out is set (to 100 ms): the channel of a TCP
	// server that hears one frame a second is still open after two seconds (idle expiry is 60 s by default,
	// whatever the read time-out is)
	{
		addr := fmt.Sprintf("127.0.0.1:%d", base+19)
		node, err := gomavlib.NewNode(gomavlib.NodeConf{Endpoints: []gomavlib.EndpointConf{gomavlib.EndpointTCPServer{Address: addr}}, Dialect: d,
			OutVersion: gomavlib.V2, OutSystemID: 10, HeartbeatDisable: true, ReadTimeout: 100 * time.Millisecond})
		verdict := "ok"
		if err != nil {
			verdict = "NODE-FAILED"
		} else {
			col := scn.NewCollector(node, 0, false)
			peer, err := net.Dial("tcp4", addr)
			if err != nil {
				verdict = "DIAL-FAILED"
			} else {
				for i := 0; i < 3; i++ {
					peer.Write(frameB) //nolint:errcheck
					time.Sleep(900 * time.Millisecond)
				}
				nf, nc := 0, 0
				for _, ch := range col.Channels() {
					nf += countFrames(col.Events(ch))
					for _, e := range col.Events(ch) {
						if _, ok := e.(*gomavlib.EventChannelClose); ok {
							nc++
						}
					}
				}
				if nc != 0 || nf != 3 || len(col.Channels()) != 1 {
					verdict = fmt.Sprintf("CHANNEL-CLOSED-WHILE-RECEIVING %d close events, %d frames of 3, %d channels", nc, nf, len(col.Channels()))
				}
				peer.Close()
			}
			scn.CloseWithin(node, 10*time.Second)
		}
		o.Add("idle time-out unset, read time-out 100 ms", verdict, "expect", "ok", "idle-default-independent")
	}

	// (7) a healthy link stays open through input that is refused: a TCP client channel receives valid
	// frames, junk, frames with a wrong checksum and v1 frames of a dialect message whose checksum is
	// right but whose payload has the wrong length; each is a parse error, the channel is not closed
	// and the endpoint does not reconnect (the server sees one connection)
	{
		ln, err := net.Listen("tcp4", "127.0.0.1:0")
		verdict := "ok"
		if err != nil {
			verdict = "LISTEN-FAILED"
		} else {
			var conns int32
			accepted := make(chan net.Conn, 8)
			go func() {
				for {
					c, err := ln.Accept()
					if err != nil {
						return
					}
					atomic.AddInt32(&conns, 1)
					accepted <- c
				}
			}()
			node, err := gomavlib.NewNode(gomavlib.NodeConf{Endpoints: []gomavlib.EndpointConf{gomavlib.EndpointTCPClient{Address: ln.Addr().String()}},
				Dialect: d, OutVersion: gomavlib.V2, OutSystemID: 10, HeartbeatDisable: true})
			if err != nil {
				verdict = "NODE-FAILED"
			} else {
				col := scn.NewCollector(node, 0, false)
				var peer net.Conn
				select {
				case peer = <-accepted:
				case <-time.After(5 * time.Second):
					verdict = "NO-CONNECTION"
				}
				if peer != nil {
					mrw := drw.GetMessage(0)
					full := len(mrw.Write(hx.RandMessage(r, d.Messages[0], 1), true).Payload)
					odd := func(v2 bool, n int) []byte {
						pl := make([]byte, n)
						for i := range pl {
							pl[i] = byte(i + 1)
						}
						raw := &message.MessageRaw{ID: 0, Payload: pl}
						if v2 {
							f := &frame.V2Frame{SystemID: 3, ComponentID: 4, Message: raw}
							f.Checksum = f.GenerateChecksum(mrw.CRCExtra())
							return frameBytes(drw, f)
						}
						f := &frame.V1Frame{SystemID: 3, ComponentID: 4, Message: raw}
						f.Checksum = f.GenerateChecksum(mrw.CRCExtra())
						return frameBytes(drw, f)
					}
					bad := append([]byte(nil), frameB...)
					bad[len(bad)-1] ^= 0x55
					script := [][]byte{frameB, odd(false, full-1), frameB, odd(false, full+1), frameB, odd(false, 1), frameB,
						{0x01, 0x02, 0x03}, frameB, bad, frameB}
					nvalid := 6
					for _, b := range script {
						peer.Write(b) //nolint:errcheck
						time.Sleep(20 * time.Millisecond)
					}
					ok := col.Wait(func() bool {
						for _, ch := range col.Channels() {
							if countFrames(col.Events(ch)) >= nvalid {
								return true
							}
						}
						return false
					})
					time.Sleep(300 * time.Millisecond)
					nf, np, nc := 0, 0, 0
					cause := ""
					for _, ch := range col.Channels() {
						for _, e := range col.Events(ch) {
							switch e := e.(type) {
							case *gomavlib.EventFrame:
								nf++
							case *gomavlib.EventParseError:
								np++
							case *gomavlib.EventChannelClose:
								nc++
								cause = fmt.Sprint(e.Error)
							}
						}
					}
					switch {
					case nc != 0:
						verdict = fmt.Sprintf("HEALTHY-CHANNEL-CLOSED after %d frames (%s)", nf, cause)
					case !ok || nf != nvalid:
						verdict = fmt.Sprintf("FRAMES-LOST %d of %d", nf, nvalid)
					case np < 5:
						verdict = fmt.Sprintf("REFUSED-INPUT-NOT-REPORTED %d parse errors", np)
					case atomic.LoadInt32(&conns) != 1 || len(col.Channels()) != 1:
						verdict = fmt.Sprintf("RECONNECTED-WITHOUT-A-FAULT %d connections", atomic.LoadInt32(&conns))
					}
					peer.Close()
				}
				scn.CloseWithin(node, 10*time.Second)
			}
			ln.Close()
		}
		o.Add("refused input on a healthy tcp client channel", verdict, "expect", "ok", "healthy-link-refused-input")
	}

	// (8) UDP server endpoint: every peer gets a channel of its own, whatever its first datagram looks
	// like: frames, junk followed by a frame, a sender that joined in the middle of its stream (none of
	// its datagrams starts on a frame boundary), a junk byte before every frame; at least three frames
	// of each peer are delivered on that peer's channel
	{
		addr := fmt.Sprintf("127.0.0.1:%d", 29500+int(hx.Seed()%100)*5)
		node, err := gomavlib.NewNode(gomavlib.NodeConf{Endpoints: []gomavlib.EndpointConf{gomavlib.EndpointUDPServer{Address: addr}},
			Dialect: d, OutVersion: gomavlib.V2, OutSystemID: 10, HeartbeatDisable: true})
		verdict := "ok"
		if err != nil {
			verdict = "NODE-FAILED " + err.Error()
		} else {
			col := scn.NewCollector(node, 0, false)
			// what each peer sends, datagram by datagram
			stream := bytes.Repeat(frameB, 6)[1:] // a sender joined in the middle of its stream:
			var midstream [][]byte                // no datagram of it starts on a frame boundary
			for len(stream) > 0 {
				n := len(frameB)
				if n > len(stream) {
					n = len(stream)
				}
				midstream = append(midstream, stream[:n])
				stream = stream[n:]
			}
			junked := [][]byte{} // every datagram has a junk byte before its frame
			for k := 0; k < 4; k++ {
				junked = append(junked, append([]byte{0x01}, frameB...))
			}
			firsts := [][][]byte{
				{frameB, frameB, frameB, frameB},
				append([][]byte{append([]byte{0x01, 0x02, 0x03}, frameB...)}, frameB, frameB, frameB),
				midstream,
				junked,
			}
			var peers []net.Conn
			for _, dgs := range firsts {
				pc, err := net.Dial("udp4", addr)
				if err != nil {
					verdict = "DIAL-FAILED"
					break
				}
				peers = append(peers, pc)
				for _, dg := range dgs {
					pc.Write(dg) //nolint:errcheck
					time.Sleep(10 * time.Millisecond)
				}
			}
			if verdict == "ok" {
				ok := col.Wait(func() bool {
					if len(col.Channels()) < len(firsts) {
						return false
					}
					for _, ch := range col.Channels() {
						if countFrames(col.Events(ch)) < 3 {
							return false
						}
					}
					return true
				})
				if !ok {
					var per []string
					for _, ch := range col.Channels() {
						per = append(per, strconv.Itoa(countFrames(col.Events(ch))))
					}
					verdict = fmt.Sprintf("PEERS-WITHOUT-A-CHANNEL-OR-FRAMES %d channels for %d peers, frames per channel [%s]", len(col.Channels()), len(firsts), strings.Join(per, " "))
				}
			}
			for _, pc := range peers {
				pc.Close()
			}
			scn.CloseWithin(node, 10*time.Second)
		}
		o.Add("udp server: a channel for every peer whatever its first datagram", verdict, "expect", "ok", "udp-server-first-datagrams")
	}
}

// packetPeer writes datagrams to one address of a packet connection (the listener is closed by its owner).
type packetPeer struct {
	pc net.PacketConn
	to net.Addr
}

func (p packetPeer) Write(b []byte) (int, error) { return p.pc.WriteTo(b, p.to) }
func (p packetPeer) Close() error                { return nil }
