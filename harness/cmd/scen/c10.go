package main

import (
	"errors"
	"fmt"
	"github.com/bluenviron/gomavlib/v3/pkg/dialect"
	"github.com/bluenviron/gomavlib/v3/pkg/dialects/minimal"
	"net"
	"reflect"
	"runtime"
	"strings"
	"sync"
	"time"

	"github.com/bluenviron/gomavlib/v3"
	"github.com/bluenviron/gomavlib/v3/pkg/frame"
	"github.com/bluenviron/gomavlib/v3/pkg/message"

	"verifharness/hx"
	"verifharness/scn"
)

func init() { gens["C10"] = genC10 }

// One C10 scenario: k channels over custom endpoints; per channel a history of valid frames,
// complete frames with a wrong checksum / signature and junk that contains no frame marker, fed
// in random chunks; optionally a transport error at the end (close event; the custom endpoint
// then opens a fresh channel which gets a second history); a consumer that is fast, slow or
// bursty; concurrent writers.  Observed: per channel (in order of first appearance per
// endpoint) the event sequence.
func genC10(o *hx.Out, tier string) {
	r := hx.NewRand(10)
	d := shipped("minimal")
	drw := defineDialect(o, "minimal", d)
	key := frame.NewV2Key([]byte("c10-incoming-key"))
	nscen := 90
	if tier == "thorough" {
		nscen = 1500
	}
	for sc := 0; sc < nscen; sc++ {
		runtime.GOMAXPROCS([]int{1, 2, 16}[sc%3])
		k := 1 + r.Intn(4)
		keyed := sc%4 == 3
		var inKey *frame.V2Key
		kt := "-"
		if keyed {
			inKey = key
			kt = hx.Hex(key[:])
		}
		mode := sc % 3 // 0 fast, 1 slow, 2 bursty
		// histories: per endpoint a list of lives (one per successive channel), each a byte stream + final error?
		type life struct {
			data   []byte
			withEr bool
		}
		hist := make([][]life, k)
		for i := 0; i < k; i++ {
			nl := 1 + r.Intn(2)
			for l := 0; l < nl; l++ {
				var data []byte
				nf := r.Intn(7)
				for j := 0; j < nf; j++ {
					roll := r.Intn(6)
					if keyed && roll == 3 {
						// forged frame dated far ahead: must not move the signature window
						okey := frame.NewV2Key([]byte("other"))
						f := validFrame(r, drw, hx.RandMessage(r, d.Messages[0], 2), true, okey).(*frame.V2Frame)
						f.SignatureTimestamp = 1<<40 + uint64(r.Intn(1000))
						f.Signature = f.GenerateSignature(okey)
						data = append(data, frameBytes(drw, f)...)
						continue
					}
					if !keyed && roll == 4 && r.Intn(2) == 0 {
						// two or three consecutive frames whose message id is not in the dialect: each is
						// delivered (as a raw message), whatever was looked up before
						for q := 0; q < 2+r.Intn(2); q++ {
							raw := &message.MessageRaw{ID: 4242, Payload: []byte{byte(q + 1), byte(j + 1), 7}}
							f := &frame.V2Frame{SequenceNumber: byte(q), SystemID: 5, ComponentID: 6, Message: raw, Checksum: uint16(1000 + q)}
							data = append(data, frameBytes(drw, f)...)
						}
						continue
					}
					switch roll {
					case 0: // junk without markers
						for q := 0; q < 1+r.Intn(5); q++ {
							data = append(data, byte(r.Intn(253)))
						}
					case 1: // complete frame, wrong checksum (on links without a key the sender may sign all the same:
						// what the reader saw of a refused frame must not show in the frames after it)
						ck := inKey
						if !keyed && r.Intn(2) == 0 {
							ck = frame.NewV2Key([]byte("a sender that signs"))
						}
						fr := validFrame(r, drw, hx.RandMessage(r, d.Messages[0], 2), true, ck)
						bs := frameBytes(drw, fr)
						bs[10+len(fr.GetMessage().(*message.MessageRaw).Payload)] ^= 0x55
						data = append(data, bs...)
					case 2: // keyed link: complete frame, wrong signature / unsigned / v1
						var fr frame.Frame
						if keyed {
							switch r.Intn(3) {
							case 0:
								fr = validFrame(r, drw, hx.RandMessage(r, d.Messages[0], 2), true, frame.NewV2Key([]byte("other")))
							case 1:
								fr = validFrame(r, drw, hx.RandMessage(r, d.Messages[0], 2), true, nil)
							default:
								fr = validFrame(r, drw, hx.RandMessage(r, d.Messages[0], 2), false, nil)
							}
						} else {
							fr = validFrame(r, drw, hx.RandMessage(r, d.Messages[r.Intn(len(d.Messages))], 2), r.Intn(2) == 0, nil)
						}
						data = append(data, frameBytes(drw, fr)...)
					default:
						v2 := keyed || r.Intn(2) == 0
						fr := validFrame(r, drw, hx.RandMessage(r, d.Messages[r.Intn(len(d.Messages))], 2), v2, inKey)
						data = append(data, frameBytes(drw, fr)...)
					}
				}
				hist[i] = append(hist[i], life{data, l < nl-1 || r.Intn(2) == 0})
			}
		}
		pipes := make([]*scn.Pipe, k)
		for i := range pipes {
			pipes[i] = scn.NewPipe(fmt.Sprintf("p%d", i))
		}
		node := newNode(pipes, func(c *gomavlib.NodeConf) {
			c.Dialect = d
			c.InKey = inKey
		})
		slow := time.Duration(0)
		if mode == 1 {
			slow = 300 * time.Microsecond
		}
		col := scn.NewCollector(node, slow, mode == 2)
		// concurrent writers (their frames go to the pipes' wires; irrelevant here but they interleave)
		stopW := make(chan struct{})
		var wg sync.WaitGroup
		for w := 0; w < sc%3; w++ {
			wg.Add(1)
			go func() {
				defer wg.Done()
				for {
					select {
					case <-stopW:
						return
					default:
					}
					node.WriteMessageAll(hx.RandMessage(hx.NewRand(int64(sc)), d.Messages[0], 0)) //nolint:errcheck
					time.Sleep(200 * time.Microsecond)
				}
			}()
		}
		// expected number of events per endpoint and life (reference run of the frame reader on the same bytes)
		expected := make([][]int, k)
		for i := 0; i < k; i++ {
			for _, l := range hist[i] {
				res := hx.ReadAll([]hx.Chunk{{Data: l.data}}, drw, inKey, nil)
				n := len(strings.Fields(res)) // results incl. final T0
				e := 1 + (n - 1)              // open + one event per non-EOF result
				if l.withEr {
					e++ // close
				}
				expected[i] = append(expected[i], e)
			}
		}
		allArrived := func() bool {
			byPipe := map[*scn.Pipe][]*gomavlib.Channel{}
			for _, ch := range col.Channels() {
				byPipe[scn.PipeOf(ch)] = append(byPipe[scn.PipeOf(ch)], ch)
			}
			for i := 0; i < k; i++ {
				chs := byPipe[pipes[i]]
				for li, e := range expected[i] {
					if li >= len(chs) || len(col.Events(chs[li])) < e {
						return false
					}
				}
			}
			return true
		}
		// feed: all endpoints concurrently, random chunking
		var fw sync.WaitGroup
		for i := 0; i < k; i++ {
			fw.Add(1)
			go func(i int) {
				defer fw.Done()
				rr := hx.NewRand(int64(sc*100 + i))
				for _, l := range hist[i] {
					for _, c := range splitRandom(rr, l.data) {
						pipes[i].Feed(c)
						if rr.Intn(4) == 0 {
							runtime.Gosched()
						}
					}
					if l.withEr {
						pipes[i].FeedErr(errors.New("scripted read failure"))
					}
				}
			}(i)
		}
		if mode == 2 {
			time.Sleep(3 * time.Millisecond)
			col.Resume()
		}
		fw.Wait()
		ok := col.Wait(allArrived)
		close(stopW)
		wg.Wait()
		closed := scn.CloseWithin(node, 10*time.Second)
		<-col.Done
		// per endpoint, per successive channel: observed events vs the model's prediction
		byPipe := map[*scn.Pipe][]*gomavlib.Channel{}
		for _, ch := range col.Channels() {
			p := scn.PipeOf(ch)
			byPipe[p] = append(byPipe[p], ch)
		}
		for i := 0; i < k; i++ {
			chs := byPipe[pipes[i]]
			for li, l := range hist[i] {
				obs := "-"
				if li < len(chs) {
					obs = scn.EventsText(col.Events(chs[li]))
				}
				if !ok {
					obs += " TIMEOUT"
				}
				if !closed {
					obs += " CLOSE-HUNG"
				}
				tail := "-"
				if l.withEr {
					tail = "!9"
				}
				o.Add(fmt.Sprintf("k=%d mode=%d keyed=%v", k, mode, keyed), obs, "chanev", "minimal", kt, hx.Hex(l.data), tail)
			}
			// a channel beyond the scripted lives: opened by the custom endpoint after the last
			// error; it must show nothing but its open event
			for li := len(hist[i]); li < len(chs); li++ {
				obs := scn.EventsText(col.Events(chs[li]))
				o.Add("extra channel", obs, "chanev", "minimal", kt, "-", "-")
			}
		}
	}
	// Close racing with delivery: the consumer is absent while frames arrive, the node is closed,
	// then the application ranges over Events().  Whatever it still receives from a channel must
	// be a prefix of that channel's full sequence (open first, in order, nothing skipped).
	nrace := 150
	if tier == "thorough" {
		nrace = 3000
	}
	for sc := 0; sc < nrace; sc++ {
		runtime.GOMAXPROCS([]int{1, 2, 16}[sc%3])
		k := 1 + r.Intn(3)
		pipes := make([]*scn.Pipe, k)
		datas := make([][]byte, k)
		for i := range pipes {
			pipes[i] = scn.NewPipe(fmt.Sprintf("p%d", i))
			for j := 0; j < 1+r.Intn(20); j++ {
				fr := validFrame(r, drw, hx.RandMessage(r, d.Messages[r.Intn(len(d.Messages))], 2), true, nil)
				datas[i] = append(datas[i], frameBytes(drw, fr)...)
			}
		}
		node := newNode(pipes, func(c *gomavlib.NodeConf) { c.Dialect = d })
		col := scn.NewCollector(node, 0, true)
		for i := range pipes {
			pipes[i].Feed(datas[i])
		}
		time.Sleep(time.Duration(r.Intn(1500)) * time.Microsecond)
		done := make(chan struct{})
		go func() { node.Close(); close(done) }()
		time.Sleep(time.Duration(r.Intn(300)) * time.Microsecond)
		col.Resume()
		hung := ""
		select {
		case <-done:
		case <-time.After(10 * time.Second):
			hung = " CLOSE-HUNG"
		}
		select {
		case <-col.Done:
		case <-time.After(10 * time.Second):
			hung += " EVENTS-NOT-CLOSED"
		}
		seen := map[*scn.Pipe]bool{}
		for _, ch := range col.Channels() {
			p := scn.PipeOf(ch)
			idx := -1
			for i := range pipes {
				if pipes[i] == p {
					idx = i
				}
			}
			if seen[p] || idx < 0 {
				o.Add("close-race", scn.EventsText(col.Events(ch))+" UNEXPECTED-CHANNEL"+hung, "chanevp", "minimal", "-", "-", "-")
				continue
			}
			seen[p] = true
			o.Add("close-race", scn.EventsText(col.Events(ch))+hung, "chanevp", "minimal", "-", hx.Hex(datas[idx]), "-")
		}
		if len(col.Channels()) == 0 {
			o.Add("close-race", "-"+hung, "chanevp", "minimal", "-", hx.Hex(datas[0]), "-")
		}
	}
	// ---- many channels decode the SAME message type at the same time (v2 payloads cut short by
	// trailing zeros): every channel's events must be its own frames, in order ----
	nx := 3
	if tier == "thorough" {
		nx = 40
	}
	for sc := 0; sc < nx; sc++ {
		runtime.GOMAXPROCS(16)
		k := 4
		pipes := make([]*scn.Pipe, k)
		for i := range pipes {
			pipes[i] = scn.NewPipe(fmt.Sprintf("x%d", i))
		}
		node := newNode(pipes, func(c *gomavlib.NodeConf) { c.Dialect = d })
		col := scn.NewCollector(node, 0, false)
		chs, ok := openChannels(col, pipes)
		if !ok {
			node.Close()
			continue
		}
		n := 300
		streams := make([][]byte, k)
		for c := 0; c < k; c++ {
			for i := 0; i < n; i++ {
				// CustomMode = channel*100000 + index; the other fields zero: the v2 payload is 1..4 bytes
				m := &minimal.MessageHeartbeat{CustomMode: uint32(c*100000 + i + 1)}
				mrw := drw.GetMessage(0)
				f := &frame.V2Frame{SequenceNumber: byte(i), SystemID: byte(c + 1), ComponentID: 1, Message: mrw.Write(m, true)}
				f.Checksum = f.GenerateChecksum(mrw.CRCExtra())
				streams[c] = append(streams[c], frameBytes(drw, f)...)
			}
		}
		var wg sync.WaitGroup
		for c := 0; c < k; c++ {
			wg.Add(1)
			go func(c int) {
				defer wg.Done()
				b := streams[c]
				for len(b) > 0 {
					q := 600
					if q > len(b) {
						q = len(b)
					}
					pipes[c].Feed(b[:q])
					b = b[q:]
				}
			}(c)
		}
		wg.Wait()
		col.Wait(func() bool {
			for c := 0; c < k; c++ {
				if countFrames(col.Events(chs[c])) < n {
					return false
				}
			}
			return true
		})
		verdict := "ok"
		for c := 0; c < k && verdict == "ok"; c++ {
			i := 0
			for _, e := range col.Events(chs[c]) {
				fe, isF := e.(*gomavlib.EventFrame)
				if !isF {
					if _, isOpen := e.(*gomavlib.EventChannelOpen); !isOpen {
						verdict = fmt.Sprintf("UNEXPECTED-EVENT %T on channel %d after %d frames", e, c, i)
						break
					}
					continue
				}
				hb, isHB := fe.Message().(*minimal.MessageHeartbeat)
				if !isHB || hb.CustomMode != uint32(c*100000+i+1) || fe.SystemID() != byte(c+1) {
					verdict = fmt.Sprintf("FRAME-%d-OF-CHANNEL-%d-IS-NOT-ITS-OWN %s", i, c, hx.Frame(fe.Frame))
					break
				}
				i++
			}
			if verdict == "ok" && i != n {
				verdict = fmt.Sprintf("CHANNEL-%d-GOT-%d-OF-%d-FRAMES", c, i, n)
			}
		}
		scn.CloseWithin(node, 10*time.Second)
		o.Add("same message type on four channels at once", verdict, "expect", "ok", fmt.Sprintf("cross-channel sc=%d", sc))
	}
	// ---- a network channel with an idle time-out and an application that pauses longer than
	// that while the peer keeps sending: nothing is lost, the channel stays open ----
	nsl := 1
	if tier == "thorough" {
		nsl = 6
	}
	for sc := 0; sc < nsl; sc++ {
		addr := fmt.Sprintf("127.0.0.1:%d", 26000+int(hx.Seed()%100)*10+sc%5)
		idle := 300 * time.Millisecond
		node, err := gomavlib.NewNode(gomavlib.NodeConf{Endpoints: []gomavlib.EndpointConf{gomavlib.EndpointTCPServer{Address: addr}},
			Dialect: d, OutVersion: gomavlib.V2, OutSystemID: 10, HeartbeatDisable: true, IdleTimeout: idle})
		if err != nil {
			continue
		}
		col := scn.NewCollector(node, 0, false)
		peer, err := net.Dial("tcp4", addr)
		if err != nil {
			node.Close()
			continue
		}
		n := 60
		stop := make(chan struct{})
		sent := make(chan int, 1)
		go func() {
			i := 0
			for ; i < n; i++ {
				m := &minimal.MessageHeartbeat{CustomMode: uint32(i + 1), MavlinkVersion: 3}
				mrw := drw.GetMessage(0)
				f := &frame.V2Frame{SequenceNumber: byte(i), SystemID: 9, ComponentID: 1, Message: mrw.Write(m, true)}
				f.Checksum = f.GenerateChecksum(mrw.CRCExtra())
				peer.Write(frameBytes(drw, f)) //nolint:errcheck
				select {
				case <-stop:
					sent <- i + 1
					return
				case <-time.After(25 * time.Millisecond):
				}
			}
			sent <- i
		}()
		// the application stops receiving for longer than the idle time-out, twice
		time.Sleep(200 * time.Millisecond)
		col.Pause()
		time.Sleep(idle + 250*time.Millisecond)
		col.Resume()
		time.Sleep(150 * time.Millisecond)
		col.Pause()
		time.Sleep(idle + 100*time.Millisecond)
		col.Resume()
		ns := <-sent
		close(stop)
		verdict := "ok"
		if !col.Wait(func() bool {
			for _, ch := range col.Channels() {
				if countFrames(col.Events(ch)) >= ns {
					return true
				}
			}
			return false
		}) {
			got := 0
			closed := ""
			for _, ch := range col.Channels() {
				got = countFrames(col.Events(ch))
				for _, e := range col.Events(ch) {
					if ce, ok := e.(*gomavlib.EventChannelClose); ok {
						closed = fmt.Sprintf(" channel closed: %v", ce.Error)
					}
				}
			}
			verdict = fmt.Sprintf("FRAMES-LOST %d of %d delivered%s", got, ns, closed)
		}
		peer.Close()
		scn.CloseWithin(node, 10*time.Second)
		o.Add("tcp channel, application pauses longer than the idle time-out", verdict, "expect", "ok", fmt.Sprintf("slow-consumer sc=%d", sc))
	}
	// ---- stream requests enabled, and peers that leave right after their heartbeat (a custom endpoint
	// going through forty lives while the application writes): whatever the node does on behalf of a
	// channel, nothing of that channel is delivered after its close event ----
	{
		cd := shipped("common")
		cdrw := &dialect.ReadWriter{Dialect: cd}
		cdrw.Initialize() //nolint:errcheck
		p := scn.NewPipe("leavers")
		node := newNode([]*scn.Pipe{p}, func(c *gomavlib.NodeConf) { c.Dialect = cd; c.StreamRequestEnable = true })
		col := scn.NewCollector(node, 0, false)
		var hbm message.Message
		for _, m := range cd.Messages {
			if m.GetID() == 0 {
				hbm = hx.RandMessage(r, m, 0)
			}
		}
		reflect.ValueOf(hbm).Elem().FieldByName("Autopilot").SetUint(3)
		mrw := cdrw.GetMessage(0)
		stop := make(chan struct{})
		var wg sync.WaitGroup
		wg.Add(1)
		go func() {
			defer wg.Done()
			for {
				select {
				case <-stop:
					return
				default:
					node.WriteMessageAll(hbm) //nolint:errcheck
				}
			}
		}()
		const lives = 40
		for i := 0; i < lives; i++ {
			f := &frame.V2Frame{SystemID: byte(1 + i), ComponentID: 1, Message: mrw.Write(hbm, true)}
			f.Checksum = f.GenerateChecksum(mrw.CRCExtra())
			p.Feed(frameBytes(cdrw, f))
			p.FeedErr(fmt.Errorf("peer %d left", i))
			time.Sleep(2 * time.Millisecond)
		}
		col.Wait(func() bool {
			n := 0
			for _, ch := range col.Channels() {
				for _, e := range col.Events(ch) {
					if _, ok := e.(*gomavlib.EventChannelClose); ok {
						n++
					}
				}
			}
			return n >= lives
		})
		time.Sleep(100 * time.Millisecond)
		close(stop)
		wg.Wait()
		scn.CloseWithin(node, 10*time.Second)
		<-col.Done
		verdict := "ok"
		late := 0
		for _, ch := range col.Channels() {
			closed := false
			for _, e := range col.Events(ch) {
				if closed {
					late++
					if verdict == "ok" {
						verdict = fmt.Sprintf("EVENT-AFTER-CLOSE %T", e)
					}
				}
				if _, ok := e.(*gomavlib.EventChannelClose); ok {
					closed = true
				}
			}
		}
		if late > 0 {
			verdict += fmt.Sprintf(" (%d events after the close event of their channel)", late)
		}
		o.Add("stream requests for peers that leave at once", verdict, "expect", "ok", "sr-leavers")
	}
	// ---- datagram transports: one UDP datagram carries many frames (senders coalesce them); a
	// datagram is one chunk of the stream: every frame of it is delivered, in order, and nothing is
	// reported as a parse error (finding F13: the part beyond the read buffer used to be discarded) ----
	mkDatagram := func(k int) []byte {
		var dg []byte
		mrw := drw.GetMessage(0)
		for i := 0; i < k; i++ {
			m := &minimal.MessageHeartbeat{CustomMode: uint32(i + 1), MavlinkVersion: 3}
			f := &frame.V2Frame{SequenceNumber: byte(i), SystemID: 9, ComponentID: 1, Message: mrw.Write(m, true)}
			f.Checksum = f.GenerateChecksum(mrw.CRCExtra())
			dg = append(dg, frameBytes(drw, f)...)
		}
		return dg
	}
	judge := func(col *scn.Collector, k int) string {
		ok := col.Wait(func() bool {
			for _, ch := range col.Channels() {
				if countFrames(col.Events(ch)) >= k {
					return true
				}
			}
			return false
		})
		time.Sleep(50 * time.Millisecond)
		got, perr, order := 0, 0, true
		for _, ch := range col.Channels() {
			for _, e := range col.Events(ch) {
				switch e := e.(type) {
				case *gomavlib.EventFrame:
					if hb, isHb := e.Message().(*minimal.MessageHeartbeat); !isHb || int(hb.CustomMode) != got+1 {
						order = false
					}
					got++
				case *gomavlib.EventParseError:
					perr++
				}
			}
		}
		switch {
		case !ok || got != k:
			return fmt.Sprintf("FRAMES-LOST %d of %d delivered, %d parse errors", got, k, perr)
		case !order:
			return "OUT-OF-ORDER"
		case perr != 0:
			return fmt.Sprintf("SPURIOUS-PARSE-ERRORS %d", perr)
		}
		return "ok"
	}
	sizes := []int{13, 25, 66}
	if tier == "thorough" {
		sizes = []int{1, 13, 24, 25, 40, 66, 300}
	}
	for si, k := range sizes {
		dg := mkDatagram(k)
		// UDP server endpoint: the peer sends the datagram
		{
			addr := fmt.Sprintf("127.0.0.1:%d", 27000+int(hx.Seed()%100)*20+si)
			node, err := gomavlib.NewNode(gomavlib.NodeConf{Endpoints: []gomavlib.EndpointConf{gomavlib.EndpointUDPServer{Address: addr}},
				Dialect: d, OutVersion: gomavlib.V2, OutSystemID: 10, HeartbeatDisable: true})
			verdict := "ok"
			if err != nil {
				verdict = "NODE-FAILED " + err.Error()
			} else {
				col := scn.NewCollector(node, 0, false)
				peer, err := net.Dial("udp4", addr)
				if err != nil {
					verdict = "DIAL-FAILED"
				} else {
					peer.Write(dg) //nolint:errcheck
					verdict = judge(col, k)
					peer.Close()
				}
				scn.CloseWithin(node, 10*time.Second)
			}
			o.Add("udp server endpoint, one datagram of many frames", verdict, "expect", "ok", fmt.Sprintf("datagram server frames=%d bytes=%d", k, len(dg)))
		}
		// UDP client endpoint: the node speaks first (so that the peer learns its address), the peer answers
		{
			pc, err := net.ListenPacket("udp4", "127.0.0.1:0")
			verdict := "ok"
			if err != nil {
				verdict = "LISTEN-FAILED"
			} else {
				node, err := gomavlib.NewNode(gomavlib.NodeConf{Endpoints: []gomavlib.EndpointConf{gomavlib.EndpointUDPClient{Address: pc.LocalAddr().String()}},
					Dialect: d, OutVersion: gomavlib.V2, OutSystemID: 10, HeartbeatDisable: true})
				if err != nil {
					verdict = "NODE-FAILED " + err.Error()
				} else {
					col := scn.NewCollector(node, 0, false)
					col.Wait(func() bool { return len(col.Channels()) > 0 })
					node.WriteMessageAll(&minimal.MessageHeartbeat{MavlinkVersion: 3}) //nolint:errcheck
					buf := make([]byte, 2048)
					pc.SetReadDeadline(time.Now().Add(5 * time.Second)) //nolint:errcheck
					_, from, err := pc.ReadFrom(buf)
					if err != nil {
						verdict = "NODE-SILENT"
					} else {
						pc.WriteTo(dg, from) //nolint:errcheck
						verdict = judge(col, k)
					}
					scn.CloseWithin(node, 10*time.Second)
				}
				pc.Close()
			}
			o.Add("udp client endpoint, one datagram of many frames", verdict, "expect", "ok", fmt.Sprintf("datagram client frames=%d bytes=%d", k, len(dg)))
		}
	}
	runtime.GOMAXPROCS(runtime.NumCPU())
}
