package main

import (
	"bytes"
	"math/rand"
	"reflect"
	"strconv"

	"github.com/bluenviron/gomavlib/v3"
	"github.com/bluenviron/gomavlib/v3/pkg/dialect"
	"github.com/bluenviron/gomavlib/v3/pkg/frame"
	"github.com/bluenviron/gomavlib/v3/pkg/message"

	"verifharness/hx"
	"verifharness/scn"
)

func u(x uint64) string { return strconv.FormatUint(x, 10) }
func b2s(b bool) string {
	if b {
		return "1"
	}
	return "0"
}

func shipped(name string) *dialect.Dialect {
	for _, nd := range hx.Shipped() {
		if nd.Name == name {
			return nd.D
		}
	}
	panic("no dialect " + name)
}

// defineDialect emits the def lines of a dialect (so that the model driver knows it).
func defineDialect(o *hx.Out, name string, d *dialect.Dialect) *dialect.ReadWriter {
	for _, m := range d.Messages {
		mrw := &message.ReadWriter{Message: m}
		impl := "err"
		if err := mrw.Initialize(); err == nil {
			impl = "ok " + strconv.Itoa(int(mrw.CRCExtra()))
		}
		o.Add("def", impl, "def", name, u(uint64(m.GetID())), hx.GoStruct(reflect.TypeOf(m).Elem()))
	}
	drw := &dialect.ReadWriter{Dialect: d}
	if err := drw.Initialize(); err != nil {
		panic(err)
	}
	return drw
}

func frameBytes(drw *dialect.ReadWriter, fr frame.Frame) []byte {
	var buf bytes.Buffer
	w := &frame.Writer{ByteWriter: &buf, DialectRW: drw}
	w.Initialize() //nolint:errcheck
	if err := w.Write(fr); err != nil {
		return nil
	}
	return buf.Bytes()
}

// validFrame builds a v1/v2 frame around msg with a correct checksum (and signature with key).
func validFrame(r *rand.Rand, drw *dialect.ReadWriter, msg message.Message, v2 bool, key *frame.V2Key) frame.Frame {
	mrw := drw.GetMessage(msg.GetID())
	raw := mrw.Write(msg, v2)
	if !v2 {
		f := &frame.V1Frame{SequenceNumber: byte(r.Intn(256)), SystemID: byte(1 + r.Intn(255)), ComponentID: byte(r.Intn(256)), Message: raw}
		f.Checksum = f.GenerateChecksum(mrw.CRCExtra())
		return f
	}
	f := &frame.V2Frame{SequenceNumber: byte(r.Intn(256)), SystemID: byte(1 + r.Intn(255)), ComponentID: byte(r.Intn(256)), Message: raw}
	if key != nil {
		f.IncompatibilityFlag = 1
		f.SignatureLinkID = byte(r.Intn(256))
		f.SignatureTimestamp = uint64(1000000 + r.Intn(1000))
	}
	f.Checksum = f.GenerateChecksum(mrw.CRCExtra())
	if key != nil {
		f.Signature = f.GenerateSignature(key)
	}
	return f
}

func splitRandom(r *rand.Rand, b []byte) [][]byte {
	var cs [][]byte
	for len(b) > 0 {
		n := 1 + r.Intn(len(b))
		if r.Intn(4) == 0 {
			n = 1
		}
		cs = append(cs, b[:n])
		b = b[n:]
	}
	return cs
}

// newNode builds a node over custom endpoints, heartbeats off unless conf says otherwise.
func newNode(pipes []*scn.Pipe, mod func(*gomavlib.NodeConf)) *gomavlib.Node {
	var eps []gomavlib.EndpointConf
	for _, p := range pipes {
		eps = append(eps, gomavlib.EndpointCustom{ReadWriteCloser: p})
	}
	conf := gomavlib.NodeConf{Endpoints: eps, OutVersion: gomavlib.V2, OutSystemID: 10, HeartbeatDisable: true}
	if mod != nil {
		mod(&conf)
	}
	n, err := gomavlib.NewNode(conf)
	if err != nil {
		panic(err)
	}
	return n
}
