// access: extracts from package gomavlib (root package of /repo, production build) the facts the
// C15 ownership policy is checked against:
//   - every selection of a field of a struct type declared in the package: enclosing function,
//     read / write / method call on the pointee, mutex lexically held, goroutine roots that reach
//     the enclosing function in the static call graph;
//   - the goroutine roots (go statements, exported API, initialisation);
//   - the call edges between package functions;
//   - in Node.Initialize: the line of the first spawn.
// Output: a Coq file (gen/Access.v) and a plain text listing.
package main

import (
	"fmt"
	"go/ast"
	"go/token"
	"go/types"
	"os"
	"sort"
	"strings"

	"golang.org/x/tools/go/packages"
)

type row struct {
	strct, field, fn, kind, lock, tkind string
	line                              int
	roots                             []string
}

type fnode struct {
	name   string
	calls  map[string]bool
	spawns bool // contains a go statement (directly)
}

var (
	fset    *token.FileSet
	info    *types.Info
	pkg     *types.Package
	fieldOf = map[*types.Var]string{} // field -> struct name
	funcs   = map[string]*fnode{}
	rows    []row
	goRoots = map[string]bool{}
	methods = map[string][]string{} // method name -> full names of package methods with that name
	selectAlts [][3]string
)

func fn(name string) *fnode {
	if f, ok := funcs[name]; ok {
		return f
	}
	f := &fnode{name: name, calls: map[string]bool{}}
	funcs[name] = f
	return f
}

func funcName(f *types.Func) string {
	sig := f.Type().(*types.Signature)
	if sig.Recv() != nil {
		t := sig.Recv().Type()
		if p, ok := t.(*types.Pointer); ok {
			t = p.Elem()
		}
		if n, ok := t.(*types.Named); ok {
			return n.Obj().Name() + "." + f.Name()
		}
	}
	return f.Name()
}

func typeKind(t types.Type) string {
	s := t.String()
	switch {
	case s == "sync.Mutex" || s == "sync.RWMutex":
		return "mutex"
	case s == "sync.WaitGroup":
		return "waitgroup"
	case s == "context.Context":
		return "context"
	}
	switch u := t.Underlying().(type) {
	case *types.Chan:
		return "chan"
	case *types.Map:
		return "map"
	case *types.Pointer:
		return "ptr"
	case *types.Interface:
		return "iface"
	case *types.Signature:
		return "func"
	case *types.Slice:
		return "slice"
	case *types.Struct:
		return "struct"
	case *types.Basic:
		_ = u
		return "basic"
	}
	return "other"
}

// fieldSel returns (struct, field, var) when e selects a field of a package struct.
func fieldSel(e ast.Expr) (string, string, *types.Var, bool) {
	se, ok := e.(*ast.SelectorExpr)
	if !ok {
		return "", "", nil, false
	}
	sel, ok := info.Selections[se]
	if !ok || sel.Kind() != types.FieldVal {
		return "", "", nil, false
	}
	v := sel.Obj().(*types.Var)
	st, ok := fieldOf[v]
	if !ok {
		return "", "", nil, false
	}
	return st, v.Name(), v, true
}

// lockHeld: is pos inside a function body that starts a `X.Lock(); defer X.Unlock()` section before pos?
func lockHeld(stack []ast.Node, pos token.Pos) string {
	for i := len(stack) - 1; i >= 0; i-- {
		var body *ast.BlockStmt
		switch f := stack[i].(type) {
		case *ast.FuncLit:
			body = f.Body
		case *ast.FuncDecl:
			body = f.Body
		default:
			continue
		}
		if body == nil {
			continue
		}
		for j := 0; j+1 < len(body.List); j++ {
			es, ok := body.List[j].(*ast.ExprStmt)
			if !ok {
				continue
			}
			call, ok := es.X.(*ast.CallExpr)
			if !ok {
				continue
			}
			se, ok := call.Fun.(*ast.SelectorExpr)
			if !ok || se.Sel.Name != "Lock" {
				continue
			}
			_, mf, _, ok := fieldSel(se.X)
			if !ok {
				continue
			}
			ds, ok := body.List[j+1].(*ast.DeferStmt)
			if !ok {
				continue
			}
			dse, ok := ds.Call.Fun.(*ast.SelectorExpr)
			if !ok || dse.Sel.Name != "Unlock" {
				continue
			}
			_, mf2, _, ok := fieldSel(dse.X)
			if !ok || mf2 != mf {
				continue
			}
			if pos > ds.End() {
				return mf
			}
		}
		// a function literal that is not a lock section: keep looking outwards only when it is
		// invoked in place; conservatively stop here
		return ""
	}
	return ""
}

func calleeNames(call *ast.CallExpr) []string {
	var id *ast.Ident
	switch f := call.Fun.(type) {
	case *ast.Ident:
		id = f
	case *ast.SelectorExpr:
		id = f.Sel
	default:
		return nil
	}
	obj, ok := info.Uses[id].(*types.Func)
	if !ok {
		return nil
	}
	sig := obj.Type().(*types.Signature)
	if sig.Recv() != nil {
		if _, isIface := sig.Recv().Type().Underlying().(*types.Interface); isIface {
			if obj.Pkg() == pkg {
				return implementations(sig.Recv().Type().Underlying().(*types.Interface), obj.Name())
			}
			return nil
		}
	}
	if obj.Pkg() != pkg {
		return nil
	}
	return []string{funcName(obj)}
}

// implementations: the methods named m of every package type that implements iface.
func implementations(iface *types.Interface, m string) []string {
	var out []string
	sc := pkg.Scope()
	for _, nm := range sc.Names() {
		tn, ok := sc.Lookup(nm).(*types.TypeName)
		if !ok {
			continue
		}
		if _, isIface := tn.Type().Underlying().(*types.Interface); isIface {
			continue
		}
		if types.Implements(tn.Type(), iface) || types.Implements(types.NewPointer(tn.Type()), iface) {
			out = append(out, tn.Name()+"."+m)
		}
	}
	sort.Strings(out)
	return out
}

func litRootName(encl string, lit *ast.FuncLit, k int) string {
	name := ""
	ast.Inspect(lit.Body, func(n ast.Node) bool {
		if name != "" {
			return false
		}
		if c, ok := n.(*ast.CallExpr); ok {
			if ns := calleeNames(c); len(ns) == 1 {
				name = "lit:" + ns[0]
			}
		}
		return true
	})
	if name == "" {
		name = fmt.Sprintf("lit:%s#%d", encl, k)
	}
	return name
}

// walk visits the body of function cur (a declared function or a go-literal root).
func walk(cur string, body ast.Node) {
	var stack []ast.Node
	nlit := 0
	written := map[ast.Expr]bool{}
	ast.Inspect(body, func(n ast.Node) bool {
		if n == nil {
			stack = stack[:len(stack)-1]
			return true
		}
		stack = append(stack, n)
		switch s := n.(type) {
		case *ast.GoStmt:
			fn(cur).spawns = true
			if lit, ok := s.Call.Fun.(*ast.FuncLit); ok {
				nlit++
				rn := litRootName(cur, lit, nlit)
				goRoots[rn] = true
				fn(rn)
				walk(rn, lit.Body)
				for _, a := range s.Call.Args {
					walk(cur, a)
				}
				stack = stack[:len(stack)-1]
				return false
			}
			for _, c := range calleeNames(s.Call) {
				goRoots[c] = true
			}
			// the receiver / argument expressions are evaluated by the spawning goroutine
			if se, ok := s.Call.Fun.(*ast.SelectorExpr); ok {
				walk(cur, se.X)
			}
			for _, a := range s.Call.Args {
				walk(cur, a)
			}
			stack = stack[:len(stack)-1]
			return false
		case *ast.SelectStmt:
			// hand-over facts: a case sends on a channel field, a sibling case calls a package function
			var sends []string
			for _, cc := range s.Body.List {
				if snd, ok := cc.(*ast.CommClause).Comm.(*ast.SendStmt); ok {
					if _, f, _, ok := fieldSel(snd.Chan); ok {
						sends = append(sends, f)
					}
				}
			}
			for _, cc := range s.Body.List {
				cl := cc.(*ast.CommClause)
				if _, isSend := cl.Comm.(*ast.SendStmt); isSend {
					continue
				}
				for _, st := range cl.Body {
					ast.Inspect(st, func(n ast.Node) bool {
						if c, ok := n.(*ast.CallExpr); ok {
							for _, callee := range calleeNames(c) {
								for _, chf := range sends {
									selectAlts = append(selectAlts, [3]string{cur, callee, chf})
								}
							}
						}
						return true
					})
				}
			}
		case *ast.AssignStmt:
			for _, l := range s.Lhs {
				written[l] = true
				if ix, ok := l.(*ast.IndexExpr); ok {
					written[ix.X] = true
				}
			}
		case *ast.IncDecStmt:
			written[s.X] = true
		case *ast.UnaryExpr:
			if s.Op == token.AND {
				written[s.X] = true
			}
		case *ast.CallExpr:
			if id, ok := s.Fun.(*ast.Ident); ok && id.Name == "delete" && len(s.Args) > 0 {
				written[s.Args[0]] = true
			}
			for _, c := range calleeNames(s) {
				fn(cur).calls[c] = true
			}
			// method call on the pointee of a field
			if se, ok := s.Fun.(*ast.SelectorExpr); ok {
				if st, f, v, ok := fieldSel(se.X); ok {
					rows = append(rows, row{strct: st, field: f, fn: cur, kind: "M:" + se.Sel.Name,
						lock: lockHeld(stack, s.Pos()), tkind: typeKind(v.Type()), line: fset.Position(s.Pos()).Line})
				}
			}
		case *ast.SelectorExpr:
			if st, f, v, ok := fieldSel(s); ok {
				k := "R"
				if written[s] {
					k = "W"
				}
				rows = append(rows, row{strct: st, field: f, fn: cur, kind: k, lock: lockHeld(stack, s.Pos()),
					tkind: typeKind(v.Type()), line: fset.Position(s.Pos()).Line})
			}
		}
		return true
	})
}

func coqStr(s string) string { return "\"" + strings.ReplaceAll(s, "\"", "\"\"") + "\"" }
func coqList(l []string) string {
	var q []string
	for _, s := range l {
		q = append(q, coqStr(s))
	}
	return "[" + strings.Join(q, "; ") + "]"
}

func main() {
	if len(os.Args) < 3 {
		fmt.Fprintln(os.Stderr, "usage: access <repo> <outdir>")
		os.Exit(2)
	}
	cfg := &packages.Config{Mode: packages.NeedName | packages.NeedFiles | packages.NeedSyntax | packages.NeedTypes |
		packages.NeedTypesInfo | packages.NeedImports | packages.NeedDeps, Dir: os.Args[1]}
	pkgs, err := packages.Load(cfg, ".")
	if err != nil || len(pkgs) != 1 || len(pkgs[0].Errors) > 0 {
		fmt.Fprintln(os.Stderr, "load failed:", err, pkgs)
		os.Exit(1)
	}
	p := pkgs[0]
	fset, info, pkg = p.Fset, p.TypesInfo, p.Types

	// struct fields of the package
	sc := pkg.Scope()
	for _, nm := range sc.Names() {
		tn, ok := sc.Lookup(nm).(*types.TypeName)
		if !ok {
			continue
		}
		if st, ok := tn.Type().Underlying().(*types.Struct); ok {
			for i := 0; i < st.NumFields(); i++ {
				fieldOf[st.Field(i)] = tn.Name()
			}
		}
		if named, ok := tn.Type().(*types.Named); ok {
			for i := 0; i < named.NumMethods(); i++ {
				m := named.Method(i)
				methods[m.Name()] = append(methods[m.Name()], funcName(m))
			}
		}
	}
	for k := range methods {
		sort.Strings(methods[k])
	}

	// functions
	apiRoots := map[string]bool{}
	initRoots := map[string]bool{}
	for _, f := range p.Syntax {
		for _, d := range f.Decls {
			fd, ok := d.(*ast.FuncDecl)
			if !ok || fd.Body == nil {
				continue
			}
			obj := info.Defs[fd.Name].(*types.Func)
			name := funcName(obj)
			fn(name)
			walk(name, fd.Body)
			if fd.Name.IsExported() {
				recvExported := true
				if fd.Recv != nil {
					parts := strings.SplitN(name, ".", 2)
					recvExported = ast.IsExported(parts[0])
				}
				if recvExported {
					if name == "Node.Initialize" || name == "NewNode" {
						initRoots[name] = true
					} else {
						apiRoots[name] = true
					}
				}
			}
		}
	}

	// reachability: root label -> functions
	reach := func(start []string) map[string]bool {
		seen := map[string]bool{}
		var st []string
		st = append(st, start...)
		for len(st) > 0 {
			x := st[len(st)-1]
			st = st[:len(st)-1]
			if seen[x] {
				continue
			}
			seen[x] = true
			if f, ok := funcs[x]; ok {
				for c := range f.calls {
					st = append(st, c)
				}
			}
		}
		return seen
	}
	rootsOf := map[string][]string{}
	addRoot := func(label string, start []string) {
		for f := range reach(start) {
			rootsOf[f] = append(rootsOf[f], label)
		}
	}
	keys := func(m map[string]bool) []string {
		var l []string
		for k := range m {
			l = append(l, k)
		}
		sort.Strings(l)
		return l
	}
	addRoot("init", keys(initRoots))
	addRoot("api", keys(apiRoots))
	for _, g := range keys(goRoots) {
		addRoot("go:"+g, []string{g})
	}
	for k := range rootsOf {
		sort.Strings(rootsOf[k])
	}
	for i := range rows {
		rows[i].roots = rootsOf[rows[i].fn]
	}
	sort.SliceStable(rows, func(i, j int) bool {
		a, b := rows[i], rows[j]
		if a.strct != b.strct {
			return a.strct < b.strct
		}
		if a.field != b.field {
			return a.field < b.field
		}
		if a.fn != b.fn {
			return a.fn < b.fn
		}
		if a.kind != b.kind {
			return a.kind < b.kind
		}
		return a.line < b.line
	})

	// functions that spawn, transitively; first spawn line in Node.Initialize
	spawnsT := map[string]bool{}
	for name := range funcs {
		for f := range reach([]string{name}) {
			if fx, ok := funcs[f]; ok && fx.spawns {
				spawnsT[name] = true
			}
		}
	}
	firstSpawn := 0
	var initDecl *ast.FuncDecl
	for _, f := range p.Syntax {
		for _, d := range f.Decls {
			fd, ok := d.(*ast.FuncDecl)
			if !ok || fd.Body == nil || funcName(info.Defs[fd.Name].(*types.Func)) != "Node.Initialize" {
				continue
			}
			initDecl = fd
			ast.Inspect(fd.Body, func(n ast.Node) bool {
				line := 0
				switch s := n.(type) {
				case *ast.GoStmt:
					line = fset.Position(s.Pos()).Line
				case *ast.CallExpr:
					for _, c := range calleeNames(s) {
						if spawnsT[c] {
							line = fset.Position(s.Pos()).Line
						}
					}
				}
				if line != 0 && (firstSpawn == 0 || line < firstSpawn) {
					firstSpawn = line
				}
				return true
			})
		}
	}

	// functions reachable from the non-go calls of Node.Initialize at or after the first spawn
	var postCalls []string
	if initDecl != nil {
		var visit func(n ast.Node) bool
		visit = func(n ast.Node) bool {
			switch s := n.(type) {
			case *ast.GoStmt:
				return false
			case *ast.CallExpr:
				if fset.Position(s.Pos()).Line >= firstSpawn {
					postCalls = append(postCalls, calleeNames(s)...)
				}
			}
			return true
		}
		ast.Inspect(initDecl.Body, visit)
	}
	postSpawn := keys(reach(postCalls))

	// ---- output ----
	var v strings.Builder
	v.WriteString("(* GENERATED from /repo by /verif/access on every run — do not edit. *)\n")
	v.WriteString("From Coq Require Import String List.\nImport ListNotations.\nFrom GM Require Import Policy.\nLocal Open Scope string_scope.\n\n")
	v.WriteString("Definition access_rows : list arow := [\n")
	// identical rows (same struct, field, function, kind, lock) are merged; the line of the first is kept
	type key struct{ a, b, c, d, e string }
	seen := map[key]bool{}
	var lines []string
	var txt strings.Builder
	for _, r := range rows {
		k := key{r.strct, r.field, r.fn, r.kind, r.lock}
		inInit := r.fn == "Node.Initialize"
		if seen[k] && !(inInit && r.kind == "W") {
			continue
		}
		seen[k] = true
		line := 0
		if inInit {
			line = r.line
		}
		lines = append(lines, fmt.Sprintf("  mkRow %s %s %s %s %s %s %d %s", coqStr(r.strct), coqStr(r.field), coqStr(r.fn),
			coqStr(r.kind), coqStr(r.lock), coqStr(r.tkind), line, coqList(r.roots)))
		fmt.Fprintf(&txt, "%s.%s\t%s\t%s\tlock=%s\t%s\t%v\n", r.strct, r.field, r.fn, r.kind, r.lock, r.tkind, r.roots)
	}
	v.WriteString(strings.Join(lines, ";\n"))
	v.WriteString("\n].\n\n")
	var rl []string
	rl = append(rl, "init", "api")
	for _, g := range keys(goRoots) {
		rl = append(rl, "go:"+g)
	}
	fmt.Fprintf(&v, "Definition goroutine_roots : list string := %s.\n", coqList(rl))
	fmt.Fprintf(&v, "Definition first_spawn_line : nat := %d.\n", firstSpawn)
	var edges []string
	for _, name := range func() []string {
		var l []string
		for k := range funcs {
			l = append(l, k)
		}
		sort.Strings(l)
		return l
	}() {
		for _, c := range keys(funcs[name].calls) {
			edges = append(edges, fmt.Sprintf("(%s, %s)", coqStr(name), coqStr(c)))
			fmt.Fprintf(&txt, "call\t%s\t%s\n", name, c)
		}
	}
	fmt.Fprintf(&v, "Definition call_edges : list (string * string) := [\n  %s\n].\n", strings.Join(edges, ";\n  "))
	fmt.Fprintf(&v, "Definition post_spawn_funcs : list string := %s.\n", coqList(postSpawn))
	var fr []string
	for _, name := range func() []string {
		var l []string
		for k := range funcs {
			l = append(l, k)
		}
		sort.Strings(l)
		return l
	}() {
		fr = append(fr, fmt.Sprintf("(%s, %s)", coqStr(name), coqList(rootsOf[name])))
	}
	fmt.Fprintf(&v, "Definition fn_roots : list (string * list string) := [\n  %s\n].\n", strings.Join(fr, ";\n  "))
	var sa []string
	for _, x := range selectAlts {
		sa = append(sa, fmt.Sprintf("(%s, %s, %s)", coqStr(x[0]), coqStr(x[1]), coqStr(x[2])))
		fmt.Fprintf(&txt, "select-alt\t%s\t%s\t%s\n", x[0], x[1], x[2])
	}
	fmt.Fprintf(&v, "Definition select_alt_calls : list (string * string * string) := [%s].\n", strings.Join(sa, "; "))
	fmt.Fprintf(&txt, "roots\t%v\nfirst_spawn_line\t%d\npost_spawn_funcs\t%v\n", rl, firstSpawn, postSpawn)
	if err := os.WriteFile(os.Args[2]+"/Access.v", []byte(v.String()), 0o644); err != nil {
		panic(err)
	}
	if err := os.WriteFile(os.Args[2]+"/access.txt", []byte(txt.String()), 0o644); err != nil {
		panic(err)
	}
	fmt.Printf("access: %d rows, %d functions, %d call edges, roots %v\n", len(lines), len(funcs), len(edges), rl)
	if err := emitSrc(os.Args[1], os.Args[2]); err != nil {
		fmt.Fprintln(os.Stderr, "src:", err)
		os.Exit(1)
	}
}
