package main

// Statement-by-statement translation of a small imperative subset of Go into Gallina over N,
// bool and list N (see coq/Model/SrcPrelude.v for what is assumed of Go):
//
//   values       unsigned machine integers (N, wrapped to their width where an operation can exceed
//                it), int (N, lengths and offsets: assumed not to overflow), byte slices and pointers
//                to byte arrays (list N), error results (bool: true = non-nil)
//   statements   x := e, x = e, x op= e, x++, buf[i] = e, if c { ...; return }, if c { ... },
//                for _, b := range p { ... }, return, copy(dst[i:], src), n += copy(dst[i:], src),
//                binary.LittleEndian.PutUintNN(dst[i:], v), g(dst[i:], args) for a translated g
//   receiver     its fields of those types become parameters <recv>_<Field>; a call chain such as
//                f.Message.GetID() becomes the parameter f_Message_GetID; a call of a translated
//                method of the same receiver is a call of its translation
//
// The result of a translated function is the tuple of its Go results followed by the byte slices
// it stores into (in parameter order); a function without results that only updates receiver
// fields returns those. Anything outside the subset makes the function "not translated" (a comment
// in the generated file), and the obligation that mentions it fails.

import (
	"fmt"
	"go/ast"
	"go/constant"
	"go/token"
	"go/types"
	"strings"

	"golang.org/x/tools/go/packages"
)

type funcSig struct {
	params    []string // parameter names of the translation, in order
	onlySlice bool     // the result is exactly the one byte slice it stores into
	recv      string   // receiver identifier (its fields are the parameters <recv>_<Field>)
	outs      []string // what is returned besides the Go results
	nres      int      // number of Go results
	objResult []string // the one result is an object: its fields
}

// a local variable that stands for an object
type obj struct {
	kind   string   // "struct": an object of a type whose methods are translated; "sha": a SHA-256 state; "abstract": a value only read
	pkg    string   // package of the struct type
	tname  string   // name of the struct type
	fields []string // struct: its unsigned-integer fields, in order
}

// packages whose translations the functions of the current package call
var curDeps = map[string]bool{}

var usesSha bool

var translated = map[string]*funcSig{} // "pkg.Recv.Method" / "pkg.func" -> signature

type tr struct {
	info  *types.Info
	pn    string
	recv  string
	rtype string
	name  string
	loops int
	defs  []string
	outs  []string // what is returned besides the Go results: slices stored into / receiver fields assigned
	nres  int
	objs  map[string]*obj
	extra []string // parameters found while translating: fields and methods of abstract objects
	extraT map[string]string
	retObj []string
}

func (t *tr) objOf(e ast.Expr) (*obj, string) {
	if p, ok := e.(*ast.ParenExpr); ok {
		return t.objOf(p.X)
	}
	id, ok := e.(*ast.Ident)
	if !ok {
		return nil, ""
	}
	o, ok := t.objs[id.Name]
	if !ok {
		return nil, ""
	}
	return o, coqIdent(id.Name)
}

func (t *tr) addExtra(name, ty string) {
	if _, ok := t.extraT[name]; !ok {
		t.extra = append(t.extra, name)
		t.extraT[name] = ty
	}
}

func structFields(ty types.Type) (pkg, tname string, fields []string, ok bool) {
	if p, isP := ty.(*types.Pointer); isP {
		ty = p.Elem()
	}
	n, isN := ty.(*types.Named)
	if !isN {
		return "", "", nil, false
	}
	st, isS := n.Underlying().(*types.Struct)
	if !isS || n.Obj().Pkg() == nil {
		return "", "", nil, false
	}
	for i := 0; i < st.NumFields(); i++ {
		if uintWidth(st.Field(i).Type()) == 0 {
			return "", "", nil, false
		}
		fields = append(fields, st.Field(i).Name())
	}
	return n.Obj().Pkg().Name(), n.Obj().Name(), fields, true
}

func objVars(name string, fields []string) []string {
	var out []string
	for _, f := range fields {
		out = append(out, coqIdent(name+"_"+f))
	}
	return out
}

// the call of a translated method on an object: function name and arguments
func (t *tr) callOnObj(o *obj, name, method string, args []ast.Expr) (*funcSig, string, error) {
	key := o.pkg + "." + o.tname + "." + method
	sig, ok := translated[key]
	if !ok {
		return nil, "", fmt.Errorf("method %s is not translated", key)
	}
	if o.pkg != t.pn {
		curDeps[o.pkg] = true
	}
	var as []string
	k := 0
	for _, p := range sig.params {
		if sig.recv != "" && strings.HasPrefix(p, sig.recv+"_") {
			as = append(as, coqIdent(name+"_"+strings.TrimPrefix(p, sig.recv+"_")))
			continue
		}
		if k >= len(args) {
			return nil, "", fmt.Errorf("too few arguments for %s", key)
		}
		a, err := t.expr(args[k])
		if err != nil {
			return nil, "", err
		}
		k++
		as = append(as, a)
	}
	return sig, "(src_" + strings.ReplaceAll(key, ".", "_") + " " + strings.Join(as, " ") + ")", nil
}

// outputs of a method call renamed to the object it is called on
func renameOuts(sig *funcSig, name string) []string {
	var out []string
	for _, o := range sig.outs {
		out = append(out, coqIdent(name+"_"+strings.TrimPrefix(o, sig.recv+"_")))
	}
	return out
}

func isPkgCall(info *types.Info, c *ast.CallExpr, path, fn string) bool {
	s, ok := c.Fun.(*ast.SelectorExpr)
	if !ok || s.Sel.Name != fn {
		return false
	}
	id, ok := s.X.(*ast.Ident)
	if !ok {
		return false
	}
	pk, ok := info.Uses[id].(*types.PkgName)
	return ok && pk.Imported().Path() == path
}

func uintWidth(t types.Type) int {
	b, ok := t.Underlying().(*types.Basic)
	if !ok {
		return 0
	}
	switch b.Kind() {
	case types.Uint8:
		return 8
	case types.Uint16:
		return 16
	case types.Uint32:
		return 32
	case types.Uint64:
		return 64
	}
	return 0
}

func isInt(t types.Type) bool {
	b, ok := t.Underlying().(*types.Basic)
	return ok && (b.Kind() == types.Int || b.Kind() == types.UntypedInt)
}

// byte slices, byte arrays and pointers to byte arrays are lists
func isBytes(t types.Type) bool {
	switch u := t.Underlying().(type) {
	case *types.Slice:
		return uintWidth(u.Elem()) == 8
	case *types.Array:
		return uintWidth(u.Elem()) == 8
	case *types.Pointer:
		if a, ok := u.Elem().Underlying().(*types.Array); ok {
			return uintWidth(a.Elem()) == 8
		}
	}
	return false
}

func (t *tr) isRecv(e ast.Expr) bool {
	id, ok := e.(*ast.Ident)
	return ok && t.recv != "" && id.Name == t.recv
}

// f.A.B() with no arguments, rooted at the receiver: an abstract parameter
func (t *tr) abstractCall(e ast.Expr) (string, bool) {
	c, ok := e.(*ast.CallExpr)
	if !ok || len(c.Args) != 0 {
		return "", false
	}
	s1, ok := c.Fun.(*ast.SelectorExpr)
	if !ok {
		return "", false
	}
	s2, ok := s1.X.(*ast.SelectorExpr)
	if !ok || !t.isRecv(s2.X) {
		return "", false
	}
	return coqIdent(t.recv + "_" + s2.Sel.Name + "_" + s1.Sel.Name), true
}

// f.Method(args) where Method of the same receiver type has been translated
func (t *tr) recvMethod(e ast.Expr) (*funcSig, string, bool) {
	c, ok := e.(*ast.CallExpr)
	if !ok {
		return nil, "", false
	}
	s, ok := c.Fun.(*ast.SelectorExpr)
	if !ok || !t.isRecv(s.X) {
		return nil, "", false
	}
	key := t.pn + "." + t.rtype + "." + s.Sel.Name
	sig, ok := translated[key]
	return sig, "src_" + strings.ReplaceAll(key, ".", "_"), ok
}

func (t *tr) varName(e ast.Expr) (string, error) {
	switch x := e.(type) {
	case *ast.Ident:
		return coqIdent(x.Name), nil
	case *ast.SelectorExpr:
		if t.isRecv(x.X) {
			return coqIdent(t.recv + "_" + x.Sel.Name), nil
		}
	case *ast.ParenExpr:
		return t.varName(x.X)
	}
	return "", fmt.Errorf("unsupported variable %T", e)
}

func (t *tr) natIndex(e ast.Expr) (string, error) {
	if v := constOf(t.info, e); v != nil && v.Kind() == constant.Int {
		return v.ExactString() + "%nat", nil
	}
	s, err := t.expr(e)
	if err != nil {
		return "", err
	}
	return "(N.to_nat " + s + ")", nil
}

func (t *tr) expr(e ast.Expr) (string, error) {
	if v := constOf(t.info, e); v != nil {
		switch v.Kind() {
		case constant.Int:
			if constant.Sign(v) < 0 {
				return "", fmt.Errorf("negative constant")
			}
			return v.ExactString(), nil
		case constant.Bool:
			return fmt.Sprint(constant.BoolVal(v)), nil
		}
	}
	// objects: h.Sum16(), h.Sum(nil), msg.Payload, msg.GetID()
	if c, ok := e.(*ast.CallExpr); ok {
		if sel, ok := c.Fun.(*ast.SelectorExpr); ok {
			if o, name := t.objOf(sel.X); o != nil {
				switch o.kind {
				case "sha":
					if sel.Sel.Name == "Sum" {
						return "(sha256 " + name + "_in)", nil
					}
					return "", fmt.Errorf("unsupported use of a hash")
				case "struct":
					sig, call, err := t.callOnObj(o, name, sel.Sel.Name, c.Args)
					if err != nil {
						return "", err
					}
					if sig.nres != 1 || len(sig.outs) != 0 {
						return "", fmt.Errorf("method used as a value has effects")
					}
					return call, nil
				case "abstract":
					if len(c.Args) == 0 && uintWidth(t.info.TypeOf(e)) > 0 {
						n := coqIdent(name + "_" + sel.Sel.Name)
						t.addExtra(n, "N")
						return n, nil
					}
					return "", fmt.Errorf("unsupported call on %s", name)
				}
			}
		}
	}
	if sel, ok := e.(*ast.SelectorExpr); ok {
		if o, name := t.objOf(sel.X); o != nil && o.kind == "abstract" {
			ty := t.info.TypeOf(e)
			n := coqIdent(name + "_" + sel.Sel.Name)
			switch {
			case uintWidth(ty) > 0:
				t.addExtra(n, "N")
			case isBytes(ty):
				t.addExtra(n, "list N")
			default:
				return "", fmt.Errorf("field %s of an unsupported type", n)
			}
			return n, nil
		}
	}
	if cl, ok := e.(*ast.CompositeLit); ok && isBytes(t.info.TypeOf(e)) {
		var el []string
		for _, x := range cl.Elts {
			if _, isKV := x.(*ast.KeyValueExpr); isKV {
				return "", fmt.Errorf("keyed byte literal")
			}
			v, err := t.expr(x)
			if err != nil {
				return "", err
			}
			el = append(el, v)
		}
		return "[" + strings.Join(el, "; ") + "]", nil
	}
	if name, ok := t.abstractCall(e); ok {
		return name, nil
	}
	if sig, fn, ok := t.recvMethod(e); ok {
		return "(" + fn + " " + strings.Join(sig.params, " ") + ")", nil
	}
	switch x := e.(type) {
	case *ast.ParenExpr:
		return t.expr(x.X)
	case *ast.Ident:
		if x.Name == "nil" {
			return "false", nil
		}
		return t.varName(e)
	case *ast.SelectorExpr:
		return t.varName(e)
	case *ast.SliceExpr:
		// x[:] of a byte array (pointer): the same list
		if x.Low == nil && x.High == nil && x.Max == nil && isBytes(t.info.TypeOf(x.X)) {
			return t.expr(x.X)
		}
		if x.Low == nil && x.High != nil && x.Max == nil && isBytes(t.info.TypeOf(x.X)) {
			base, err := t.expr(x.X)
			if err != nil {
				return "", err
			}
			h, err := t.natIndex(x.High)
			if err != nil {
				return "", err
			}
			return "(firstn " + h + " " + base + ")", nil
		}
		return "", fmt.Errorf("unsupported slice expression")
	case *ast.IndexExpr:
		base, err := t.expr(x.X)
		if err != nil {
			return "", err
		}
		i, err := t.natIndex(x.Index)
		if err != nil {
			return "", err
		}
		return "(nth " + i + " " + base + " 0)", nil
	case *ast.BinaryExpr:
		a, err := t.expr(x.X)
		if err != nil {
			return "", err
		}
		b, err := t.expr(x.Y)
		if err != nil {
			return "", err
		}
		switch x.Op {
		case token.EQL:
			return "(N.eqb " + a + " " + b + ")", nil
		case token.NEQ:
			return "(negb (N.eqb " + a + " " + b + "))", nil
		case token.LSS:
			return "(N.ltb " + a + " " + b + ")", nil
		case token.GTR:
			return "(N.ltb " + b + " " + a + ")", nil
		case token.LEQ:
			return "(N.leb " + a + " " + b + ")", nil
		case token.GEQ:
			return "(N.leb " + b + " " + a + ")", nil
		}
		ty := t.info.TypeOf(e)
		if isInt(ty) {
			if x.Op == token.ADD {
				return "(" + a + " + " + b + ")", nil
			}
			return "", fmt.Errorf("operator %s on int", x.Op)
		}
		w := uintWidth(ty)
		ws := fmt.Sprint(w)
		if w == 0 {
			return "", fmt.Errorf("operator %s on a type that is not an unsigned integer", x.Op)
		}
		switch x.Op {
		case token.XOR:
			return "(N.lxor " + a + " " + b + ")", nil
		case token.AND:
			return "(N.land " + a + " " + b + ")", nil
		case token.OR:
			return "(N.lor " + a + " " + b + ")", nil
		case token.SHR:
			return "(N.shiftr " + a + " " + b + ")", nil
		case token.SHL:
			return "(wrap " + ws + " (N.shiftl " + a + " " + b + "))", nil
		case token.ADD:
			return "(wrap " + ws + " (" + a + " + " + b + "))", nil
		case token.MUL:
			return "(wrap " + ws + " (" + a + " * " + b + "))", nil
		case token.SUB:
			return "(wrap " + ws + " (" + a + " + 2 ^ " + ws + " - " + b + "))", nil
		}
		return "", fmt.Errorf("unsupported operator %s", x.Op)
	case *ast.CallExpr:
		// conversion to an unsigned integer type
		if tv, ok := t.info.Types[x.Fun]; ok && tv.IsType() && len(x.Args) == 1 {
			w := uintWidth(tv.Type)
			at := t.info.TypeOf(x.Args[0])
			sw := uintWidth(at)
			if w == 0 || (sw == 0 && !isInt(at)) {
				return "", fmt.Errorf("unsupported conversion")
			}
			a, err := t.expr(x.Args[0])
			if err != nil {
				return "", err
			}
			if sw != 0 && sw <= w {
				return a, nil
			}
			return "(wrap " + fmt.Sprint(w) + " " + a + ")", nil
		}
		if id, ok := x.Fun.(*ast.Ident); ok {
			switch id.Name {
			case "append":
				if len(x.Args) < 2 || x.Ellipsis != token.NoPos {
					return "", fmt.Errorf("unsupported append")
				}
				base, err := t.expr(x.Args[0])
				if err != nil {
					return "", err
				}
				var el []string
				for _, a := range x.Args[1:] {
					s, err := t.expr(a)
					if err != nil {
						return "", err
					}
					el = append(el, s)
				}
				return "(" + base + " ++ [" + strings.Join(el, "; ") + "])%list", nil
			case "len":
				a, err := t.expr(x.Args[0])
				if err != nil {
					return "", err
				}
				return "(N.of_nat (length " + a + "))", nil
			}
		}
		// a non-nil error value
		if s, ok := x.Fun.(*ast.SelectorExpr); ok {
			if id, ok := s.X.(*ast.Ident); ok {
				if pk, ok := t.info.Uses[id].(*types.PkgName); ok {
					p := pk.Imported().Path()
					if (p == "fmt" && s.Sel.Name == "Errorf") || (p == "errors" && s.Sel.Name == "New") {
						return "true", nil
					}
				}
			}
		}
		return "", fmt.Errorf("unsupported call")
	}
	return "", fmt.Errorf("unsupported expression %T", e)
}

var opOfAssign = map[token.Token]token.Token{
	token.XOR_ASSIGN: token.XOR, token.AND_ASSIGN: token.AND, token.OR_ASSIGN: token.OR,
	token.SHL_ASSIGN: token.SHL, token.SHR_ASSIGN: token.SHR, token.ADD_ASSIGN: token.ADD,
	token.SUB_ASSIGN: token.SUB, token.MUL_ASSIGN: token.MUL,
}

// dst[i:] or dst as the destination of a store: base variable and offset
func (t *tr) dest(e ast.Expr) (base, off string, err error) {
	if se, ok := e.(*ast.SliceExpr); ok {
		if se.High != nil || se.Max != nil {
			return "", "", fmt.Errorf("destination slice with an upper bound")
		}
		base, err = t.varName(se.X)
		if err != nil {
			return "", "", err
		}
		off = "0%nat"
		if se.Low != nil {
			off, err = t.natIndex(se.Low)
		}
		return base, off, err
	}
	base, err = t.varName(e)
	return base, "0%nat", err
}

// a statement-level call that stores into a byte slice: the let-binding it becomes; val is the
// name bound to the value of copy() when the caller needs it
func (t *tr) storeCall(c *ast.CallExpr, val string) (string, string, bool, error) {
	if id, ok := c.Fun.(*ast.Ident); ok && id.Name == "copy" && len(c.Args) == 2 {
		base, off, err := t.dest(c.Args[0])
		if err != nil {
			return "", "", true, err
		}
		src, err := t.expr(c.Args[1])
		if err != nil {
			return "", "", true, err
		}
		if val == "" {
			val = "_"
		}
		return "let '(" + base + ", " + val + ") := copy_at " + base + " " + off + " " + src + " in", base, true, nil
	}
	if s, ok := c.Fun.(*ast.SelectorExpr); ok {
		// binary.LittleEndian.PutUintNN(dst[i:], v)
		if s2, ok := s.X.(*ast.SelectorExpr); ok && s2.Sel.Name == "LittleEndian" && strings.HasPrefix(s.Sel.Name, "PutUint") && len(c.Args) == 2 {
			if id, ok := s2.X.(*ast.Ident); ok {
				if pk, ok := t.info.Uses[id].(*types.PkgName); ok && pk.Imported().Path() == "encoding/binary" {
					nb := map[string]string{"PutUint16": "2", "PutUint32": "4", "PutUint64": "8"}[s.Sel.Name]
					if nb == "" {
						return "", "", true, fmt.Errorf("unsupported %s", s.Sel.Name)
					}
					base, off, err := t.dest(c.Args[0])
					if err != nil {
						return "", "", true, err
					}
					v, err := t.expr(c.Args[1])
					if err != nil {
						return "", "", true, err
					}
					return "let " + base + " := on_suffix " + base + " " + off + " (fun s_ => put_le s_ " + nb + "%nat " + v + ") in", base, true, nil
				}
			}
		}
	}
	// g(dst[i:], args...) for a translated package function that only stores into its first parameter
	if id, ok := c.Fun.(*ast.Ident); ok && len(c.Args) >= 1 {
		key := t.pn + "." + id.Name
		if sig, ok := translated[key]; ok && sig.onlySlice {
			base, off, err := t.dest(c.Args[0])
			if err != nil {
				return "", "", true, err
			}
			var args []string
			for _, a := range c.Args[1:] {
				s, err := t.expr(a)
				if err != nil {
					return "", "", true, err
				}
				args = append(args, s)
			}
			fn := "src_" + strings.ReplaceAll(key, ".", "_")
			return "let " + base + " := on_suffix " + base + " " + off + " (fun s_ => " + fn + " s_ " + strings.Join(args, " ") + ") in", base, true, nil
		}
	}
	return "", "", false, nil
}

// variables a statement list assigns that it does not itself declare, in order of first assignment
func (t *tr) assignedIn(list []ast.Stmt) []string {
	declared := map[string]bool{}
	var out []string
	seen := map[string]bool{}
	add := func(n string) {
		if n != "" && !declared[n] && !seen[n] {
			seen[n] = true
			out = append(out, n)
		}
	}
	destBase := func(e ast.Expr) string {
		if se, ok := e.(*ast.SliceExpr); ok {
			e = se.X
		}
		n, err := t.varName(e)
		if err != nil {
			return ""
		}
		return n
	}
	var walk func(n ast.Node) bool
	walk = func(n ast.Node) bool {
		switch s := n.(type) {
		case *ast.AssignStmt:
			for _, l := range s.Lhs {
				if ix, ok := l.(*ast.IndexExpr); ok {
					add(destBase(ix.X))
					continue
				}
				nm, err := t.varName(l)
				if err != nil {
					continue
				}
				if s.Tok == token.DEFINE {
					if !seen[nm] {
						declared[nm] = true
					}
				} else {
					add(nm)
				}
			}
			for _, r := range s.Rhs {
				if c, ok := r.(*ast.CallExpr); ok {
					if id, ok := c.Fun.(*ast.Ident); ok && id.Name == "copy" && len(c.Args) == 2 {
						add(destBase(c.Args[0]))
					}
				}
			}
		case *ast.IncDecStmt:
			if nm, err := t.varName(s.X); err == nil {
				add(nm)
			}
		case *ast.ExprStmt:
			if c, ok := s.X.(*ast.CallExpr); ok {
				if sel, ok := c.Fun.(*ast.SelectorExpr); ok {
					if o, name := t.objOf(sel.X); o != nil {
						if o.kind == "sha" {
							add(name + "_in")
						} else if sig, ok := translated[o.pkg+"."+o.tname+"."+sel.Sel.Name]; ok {
							for _, v := range renameOuts(sig, name) {
								add(v)
							}
						}
						return true
					}
				}
				if len(c.Args) >= 1 {
					if _, base, ok, err := t.storeCall(c, ""); ok && err == nil {
						add(base)
					}
				}
			}
		}
		return true
	}
	for _, s := range list {
		ast.Inspect(s, walk)
	}
	return out
}

func tuple(vs []string) string {
	if len(vs) == 1 {
		return vs[0]
	}
	return "(" + strings.Join(vs, ", ") + ")"
}

func pattern(vs []string) string {
	if len(vs) == 1 {
		return vs[0]
	}
	return "'" + tuple(vs)
}

// stmts translates a statement list into a chain of lets ending in tail().
func (t *tr) stmts(list []ast.Stmt, tail func() (string, error)) (string, error) {
	if len(list) == 0 {
		return tail()
	}
	rest := func() (string, error) { return t.stmts(list[1:], tail) }
	bind := func(binding string) (string, error) {
		r, err := rest()
		if err != nil {
			return "", err
		}
		return binding + "\n  " + r, nil
	}
	switch s := list[0].(type) {
	case *ast.AssignStmt:
		if len(s.Lhs) != 1 || len(s.Rhs) != 1 {
			return "", fmt.Errorf("multiple assignment")
		}
		// buf[i] = e
		if ix, ok := s.Lhs[0].(*ast.IndexExpr); ok && s.Tok == token.ASSIGN {
			base, err := t.varName(ix.X)
			if err != nil {
				return "", err
			}
			if !isBytes(t.info.TypeOf(ix.X)) {
				return "", fmt.Errorf("indexed assignment to something that is not a byte slice")
			}
			i, err := t.natIndex(ix.Index)
			if err != nil {
				return "", err
			}
			v, err := t.expr(s.Rhs[0])
			if err != nil {
				return "", err
			}
			return bind("let " + base + " := set_nth " + base + " " + i + " " + v + " in")
		}
		if s.Tok == token.DEFINE {
			if id, ok := s.Lhs[0].(*ast.Ident); ok {
				lhs := coqIdent(id.Name)
				switch r := s.Rhs[0].(type) {
				case *ast.TypeAssertExpr:
					// msg := f.GetMessage().(*T): a value that is only read; what is read of it becomes a parameter
					t.objs[id.Name] = &obj{kind: "abstract"}
					return rest()
				case *ast.UnaryExpr:
					// x := &T{}
					if cl, ok := r.X.(*ast.CompositeLit); ok && r.Op == token.AND && len(cl.Elts) == 0 {
						if pk, tn, fs, ok := structFields(t.info.TypeOf(cl)); ok {
							t.objs[id.Name] = &obj{kind: "struct", pkg: pk, tname: tn, fields: fs}
							var b []string
							for _, v := range objVars(lhs, fs) {
								b = append(b, "let "+v+" := 0 in")
							}
							return bind(strings.Join(b, "\n  "))
						}
					}
				case *ast.CallExpr:
					if isPkgCall(t.info, r, "crypto/sha256", "New") {
						t.objs[id.Name] = &obj{kind: "sha"}
						usesSha = true
						return bind("let " + lhs + "_in := (@nil N) in")
					}
					if fid, ok := r.Fun.(*ast.Ident); ok && (fid.Name == "make" || fid.Name == "new") {
						ty := t.info.TypeOf(s.Rhs[0])
						if isBytes(ty) {
							n := ""
							if fid.Name == "make" && len(r.Args) == 2 {
								n, _ = t.natIndex(r.Args[1])
							} else if pt, ok := ty.Underlying().(*types.Pointer); ok {
								if a, ok := pt.Elem().Underlying().(*types.Array); ok {
									n = fmt.Sprintf("%d%%nat", a.Len())
								}
							}
							if n != "" {
								return bind("let " + lhs + " := repeat 0 " + n + " in")
							}
						}
						return "", fmt.Errorf("unsupported allocation")
					}
					// h := pkg.New() for a translated constructor
					key := ""
					if sel, ok := r.Fun.(*ast.SelectorExpr); ok {
						if pid, ok := sel.X.(*ast.Ident); ok {
							if pk, ok := t.info.Uses[pid].(*types.PkgName); ok {
								key = pk.Imported().Name() + "." + sel.Sel.Name
							}
						}
					} else if fid, ok := r.Fun.(*ast.Ident); ok {
						key = t.pn + "." + fid.Name
					}
					if sig, ok := translated[key]; ok && sig.objResult != nil {
						if pk, tn, fs, ok := structFields(t.info.TypeOf(s.Rhs[0])); ok {
							if pk != t.pn {
								curDeps[pk] = true
							}
							t.objs[id.Name] = &obj{kind: "struct", pkg: pk, tname: tn, fields: fs}
							var as []string
							for _, a := range r.Args {
								v, err := t.expr(a)
								if err != nil {
									return "", err
								}
								as = append(as, v)
							}
							return bind("let " + pattern(objVars(lhs, fs)) + " := src_" + strings.ReplaceAll(key, ".", "_") + " " + strings.Join(as, " ") + " in")
						}
					}
				}
			}
		}
		name, err := t.varName(s.Lhs[0])
		if err != nil {
			return "", err
		}
		// n := copy(...), n = copy(...), n += copy(...)
		if c, ok := s.Rhs[0].(*ast.CallExpr); ok {
			if id, ok := c.Fun.(*ast.Ident); ok && id.Name == "copy" {
				b, _, _, err := t.storeCall(c, "copied_")
				if err != nil {
					return "", err
				}
				switch s.Tok {
				case token.DEFINE, token.ASSIGN:
					return bind(b + "\n  let " + name + " := copied_ in")
				case token.ADD_ASSIGN:
					return bind(b + "\n  let " + name + " := (" + name + " + copied_) in")
				}
				return "", fmt.Errorf("unsupported use of copy")
			}
		}
		var v string
		switch s.Tok {
		case token.DEFINE, token.ASSIGN:
			v, err = t.expr(s.Rhs[0])
		default:
			op, ok := opOfAssign[s.Tok]
			if !ok {
				return "", fmt.Errorf("unsupported assignment %s", s.Tok)
			}
			be := &ast.BinaryExpr{X: s.Lhs[0], Op: op, Y: s.Rhs[0]}
			t.info.Types[be] = types.TypeAndValue{Type: t.info.TypeOf(s.Lhs[0])} // x op= y has the type of x
			v, err = t.expr(be)
		}
		if err != nil {
			return "", err
		}
		return bind("let " + name + " := " + v + " in")
	case *ast.IncDecStmt:
		name, err := t.varName(s.X)
		if err != nil {
			return "", err
		}
		if s.Tok != token.INC {
			return "", fmt.Errorf("decrement")
		}
		ty := t.info.TypeOf(s.X)
		if isInt(ty) {
			return bind("let " + name + " := (" + name + " + 1) in")
		}
		if w := uintWidth(ty); w > 0 {
			return bind(fmt.Sprintf("let %s := (wrap %d (%s + 1)) in", name, w, name))
		}
		return "", fmt.Errorf("increment of a non-integer")
	case *ast.ExprStmt:
		c, ok := s.X.(*ast.CallExpr)
		if !ok {
			return "", fmt.Errorf("unsupported expression statement")
		}
		// x.M(args) on an object
		if sel, ok := c.Fun.(*ast.SelectorExpr); ok {
			if o, name := t.objOf(sel.X); o != nil {
				switch o.kind {
				case "sha":
					if sel.Sel.Name != "Write" || len(c.Args) != 1 {
						return "", fmt.Errorf("unsupported use of a hash")
					}
					a, err := t.expr(c.Args[0])
					if err != nil {
						return "", err
					}
					return bind("let " + name + "_in := (" + name + "_in ++ " + a + ")%list in")
				case "struct":
					sig, call, err := t.callOnObj(o, name, sel.Sel.Name, c.Args)
					if err != nil {
						return "", err
					}
					if sig.nres != 0 || len(sig.outs) == 0 {
						return "", fmt.Errorf("method called as a statement has results or no effect")
					}
					return bind("let " + pattern(renameOuts(sig, name)) + " := " + call + " in")
				}
				return "", fmt.Errorf("unsupported call on %s", name)
			}
		}
		b, _, ok, err := t.storeCall(c, "")
		if err != nil {
			return "", err
		}
		if !ok {
			return "", fmt.Errorf("unsupported call statement")
		}
		return bind(b)
	case *ast.IfStmt:
		if s.Init != nil || s.Else != nil {
			return "", fmt.Errorf("if with init or else")
		}
		cond, err := t.expr(s.Cond)
		if err != nil {
			return "", err
		}
		body := s.Body.List
		if n := len(body); n > 0 {
			if _, isRet := body[n-1].(*ast.ReturnStmt); isRet {
				// if c { ...; return ... }
				thenS, err := t.stmts(body, func() (string, error) { return "", fmt.Errorf("unreachable") })
				if err != nil {
					return "", err
				}
				r, err := rest()
				if err != nil {
					return "", err
				}
				return "if " + cond + " then\n  (" + thenS + ")\n  else\n  " + r, nil
			}
		}
		st := t.assignedIn(body)
		if len(st) == 0 {
			return "", fmt.Errorf("if without effect")
		}
		thenS, err := t.stmts(body, func() (string, error) { return tuple(st), nil })
		if err != nil {
			return "", err
		}
		return bind("let " + pattern(st) + " := if " + cond + " then\n  (" + thenS + ")\n  else " + tuple(st) + " in")
	case *ast.RangeStmt:
		// for _, b := range p { ... }
		if s.Key != nil {
			if id, ok := s.Key.(*ast.Ident); !ok || id.Name != "_" {
				return "", fmt.Errorf("range with an index variable")
			}
		}
		el, ok := s.Value.(*ast.Ident)
		if !ok || s.Tok != token.DEFINE {
			return "", fmt.Errorf("unsupported range clause")
		}
		if !isBytes(t.info.TypeOf(s.X)) {
			return "", fmt.Errorf("range over something that is not a byte slice")
		}
		over, err := t.expr(s.X)
		if err != nil {
			return "", err
		}
		st := t.assignedIn(s.Body.List)
		if len(st) == 0 {
			return "", fmt.Errorf("loop without effect")
		}
		body, err := t.stmts(s.Body.List, func() (string, error) { return tuple(st), nil })
		if err != nil {
			return "", err
		}
		t.loops++
		ln := fmt.Sprintf("%s_loop%d", t.name, t.loops)
		t.defs = append(t.defs, fmt.Sprintf("Definition %s := fun %s (%s : N) =>\n  %s.", ln, pattern(st), coqIdent(el.Name), body))
		return bind("let " + pattern(st) + " := fold_left " + ln + " " + over + " " + tuple(st) + " in")
	case *ast.ReturnStmt:
		if len(s.Results) != t.nres {
			return "", fmt.Errorf("return with %d results", len(s.Results))
		}
		var rs []string
		if len(s.Results) == 1 {
			if o, name := t.objOf(s.Results[0]); o != nil && o.kind == "struct" {
				t.retObj = o.fields
				return tuple(append(objVars(name, o.fields), t.outs...)), nil
			}
		}
		for _, r := range s.Results {
			v, err := t.expr(r)
			if err != nil {
				return "", err
			}
			rs = append(rs, v)
		}
		rs = append(rs, t.outs...)
		return tuple(rs), nil
	}
	return "", fmt.Errorf("unsupported statement %T", list[0])
}

func translateFunc(o *srcOut, p *packages.Package, pn, name string, d *ast.FuncDecl) error {
	t := &tr{info: p.TypesInfo, pn: pn, name: name, objs: map[string]*obj{}, extraT: map[string]string{}}
	var params []string // "(x : N)" forms
	var pnames []string
	addParam := func(n, ty string) {
		for _, q := range pnames {
			if q == n {
				return
			}
		}
		pnames = append(pnames, n)
		params = append(params, "("+n+" : "+ty+")")
	}
	coqType := func(ty types.Type) string {
		switch {
		case uintWidth(ty) > 0 || isInt(ty):
			return "N"
		case isBytes(ty):
			return "list N"
		}
		return ""
	}
	if d.Recv != nil && len(d.Recv.List) == 1 && len(d.Recv.List[0].Names) == 1 {
		t.recv = d.Recv.List[0].Names[0].Name
		t.rtype = recvTypeName(d.Recv.List[0].Type)
		rt := p.TypesInfo.TypeOf(d.Recv.List[0].Type)
		if pt, ok := rt.(*types.Pointer); ok {
			rt = pt.Elem()
		}
		st, ok := rt.Underlying().(*types.Struct)
		if !ok {
			return fmt.Errorf("receiver is not a struct")
		}
		// fields used directly, abstract call chains, fields needed by translated methods called
		used := map[string]bool{}
		var abstract []string
		var bad error
		var scan func(n ast.Node) bool
		scan = func(n ast.Node) bool {
			if e, ok := n.(ast.Expr); ok {
				if nm, ok := t.abstractCall(e); ok {
					abstract = append(abstract, nm)
					return false
				}
				if sig, _, ok := t.recvMethod(e); ok {
					for _, q := range sig.params {
						if strings.HasPrefix(q, t.recv+"_") {
							used[strings.TrimPrefix(q, t.recv+"_")] = true
						}
					}
					return false
				}
			}
			if sel, ok := n.(*ast.SelectorExpr); ok && t.isRecv(sel.X) {
				used[sel.Sel.Name] = true
			}
			return true
		}
		ast.Inspect(d.Body, scan)
		for i := 0; i < st.NumFields(); i++ {
			f := st.Field(i)
			if !used[f.Name()] {
				continue
			}
			ct := coqType(f.Type())
			if ct == "" {
				bad = fmt.Errorf("receiver field %s has an unsupported type", f.Name())
				break
			}
			addParam(coqIdent(t.recv+"_"+f.Name()), ct)
		}
		if bad != nil {
			return bad
		}
		for _, a := range abstract {
			addParam(a, "N")
		}
	}
	var sliceParams []string
	for _, f := range d.Type.Params.List {
		ty := p.TypesInfo.TypeOf(f.Type)
		ct := coqType(ty)
		if ct == "" {
			return fmt.Errorf("parameter type %s", ty)
		}
		for _, n := range f.Names {
			addParam(coqIdent(n.Name), ct)
			if ct == "list N" {
				sliceParams = append(sliceParams, coqIdent(n.Name))
			}
		}
	}
	if d.Type.Results != nil {
		for _, r := range d.Type.Results.List {
			k := len(r.Names)
			if k == 0 {
				k = 1
			}
			t.nres += k
		}
	}
	// outputs besides the Go results: slices stored into (parameter order), receiver fields assigned
	assigned := t.assignedIn(d.Body.List)
	isAssigned := map[string]bool{}
	for _, a := range assigned {
		isAssigned[a] = true
	}
	for _, sp := range sliceParams {
		if isAssigned[sp] {
			t.outs = append(t.outs, sp)
		}
	}
	for _, a := range assigned {
		if t.recv != "" && strings.HasPrefix(a, t.recv+"_") {
			t.outs = append(t.outs, a)
		}
	}
	body, err := t.stmts(d.Body.List, func() (string, error) {
		if t.nres > 0 {
			return "", fmt.Errorf("function with a result ends without return")
		}
		if len(t.outs) == 0 {
			return "", fmt.Errorf("function without result and without effect")
		}
		return tuple(t.outs), nil
	})
	if err != nil {
		return err
	}
	for _, dd := range t.defs {
		o.b.WriteString(dd + "\n")
	}
	for _, x := range t.extra {
		addParam(x, t.extraT[x])
	}
	fmt.Fprintf(&o.b, "Definition %s %s :=\n  %s.\n", name, strings.Join(params, " "), body)
	o.count["func"]++
	key := strings.ReplaceAll(strings.TrimPrefix(name, "src_"), "_", ".")
	_ = key
	sig := &funcSig{params: pnames, onlySlice: t.nres == 0 && len(t.outs) == 1 && len(sliceParams) > 0 && t.outs[0] == sliceParams[0],
		recv: t.recv, outs: t.outs, nres: t.nres, objResult: t.retObj}
	if d.Recv != nil {
		translated[pn+"."+t.rtype+"."+d.Name.Name] = sig
	} else {
		translated[pn+"."+d.Name.Name] = sig
	}
	return nil
}
