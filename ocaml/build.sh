#!/bin/sh
# builds the extracted model + driver into /verif/ocaml/mdl
set -e
cd "$(dirname "$0")"
mkdir -p _build
cp ../coq/Extract/mdl.ml ../coq/Extract/mdl.mli driver.ml _build/
cd _build
ocamlfind ocamlopt -O3 -w -a -package str mdl.mli mdl.ml driver.ml -o ../mdl 2>/dev/null || \
ocamlfind ocamlopt -w -a mdl.mli mdl.ml driver.ml -o ../mdl
