(* Line-protocol driver around the extracted Coq models (Mdl).  One output line per input
   line.  Only conversions and printing live here; every decision is made by Mdl. *)
open Mdl

let rec pos_of_i64 (x : int64) : positive =
  if Int64.equal x 1L then XH
  else
    let h = pos_of_i64 (Int64.shift_right_logical x 1) in
    if Int64.equal (Int64.logand x 1L) 1L then XI h else XO h
let n_of_i64 x = if Int64.equal x 0L then N0 else Npos (pos_of_i64 x)
let n_of_int i = n_of_i64 (Int64.of_int i)
let rec i64_of_pos = function
  | XH -> 1L
  | XO p -> Int64.shift_left (i64_of_pos p) 1
  | XI p -> Int64.logor (Int64.shift_left (i64_of_pos p) 1) 1L
let i64_of_n = function N0 -> 0L | Npos p -> i64_of_pos p
let int_of_n x = Int64.to_int (i64_of_n x)
let n_of_string s = n_of_i64 (Int64.of_string ("0u" ^ s))
let string_of_n x = Printf.sprintf "%Lu" (i64_of_n x)
let z_of_string s =
  if String.length s > 0 && s.[0] = '-' then
    (match n_of_string (String.sub s 1 (String.length s - 1)) with N0 -> Z0 | Npos p -> Zneg p)
  else (match n_of_string s with N0 -> Z0 | Npos p -> Zpos p)
let string_of_z = function
  | Z0 -> "0" | Zpos p -> string_of_n (Npos p) | Zneg p -> "-" ^ string_of_n (Npos p)
let rec nat_of_int i = if i <= 0 then O else S (nat_of_int (i - 1))
let rec int_of_nat = function O -> 0 | S k -> 1 + int_of_nat k

let split c s = if s = "" then [] else String.split_on_char c s

let bytes_of_hex s =
  if s = "-" || s = "" then []
  else List.init (String.length s / 2) (fun i -> n_of_int (int_of_string ("0x" ^ String.sub s (2 * i) 2)))
let hex_of_bytes l =
  if l = [] then "-" else String.concat "" (List.map (fun b -> Printf.sprintf "%02x" (int_of_n b)) l)

(* ---- values ---- *)
let parse_scalar s =
  if String.length s > 0 && s.[0] = 's' then VS (bytes_of_hex (String.sub s 1 (String.length s - 1)))
  else VU (n_of_string s)
let parse_fval s =
  if String.length s > 0 && s.[0] = '[' then
    VA (List.map parse_scalar (split ';' (String.sub s 1 (String.length s - 2))))
  else parse_scalar s
let parse_value s = if s = "-" then [] else List.map parse_fval (split ',' s)
let rec show_fval = function
  | VU x -> string_of_n x
  | VS b -> "s" ^ (if b = [] then "" else hex_of_bytes b)
  | VA l -> "[" ^ String.concat ";" (List.map show_fval l) ^ "]"
let show_value v = if v = [] then "-" else String.concat "," (List.map show_fval v)

(* ---- go structs ---- *)
let b01 s = s = "1"
let parse_gofield s =
  match split ':' s with
  | [name; isarr; arrlen; tname; ku64; kstr; te; tl; tx; tn] ->
    { g_name = bytes_of_hex name; g_isarr = b01 isarr; g_arrlen = n_of_string arrlen;
      g_tname = bytes_of_hex tname; g_kind_uint64 = b01 ku64; g_kind_string = b01 kstr;
      g_tag_enum = bytes_of_hex te; g_tag_len = bytes_of_hex tl; g_tag_ext = bytes_of_hex tx;
      g_tag_name = bytes_of_hex tn }
  | _ -> failwith ("bad gofield " ^ s)
let parse_gostruct s =
  match split '|' s with
  | name :: fs -> { gs_name = bytes_of_hex name; gs_fields = List.map parse_gofield fs }
  | [] -> failwith "bad gostruct"

let show_gofield g =
  String.concat ":" [ hex_of_bytes g.g_name; (if g.g_isarr then "1" else "0"); string_of_n g.g_arrlen; hex_of_bytes g.g_tname;
    (if g.g_kind_uint64 then "1" else "0"); (if g.g_kind_string then "1" else "0");
    hex_of_bytes g.g_tag_enum; hex_of_bytes g.g_tag_len; hex_of_bytes g.g_tag_ext; hex_of_bytes g.g_tag_name ]
let show_gostruct g = String.concat "|" (hex_of_bytes g.gs_name :: List.map show_gofield g.gs_fields)

(* ---- dialect table ---- *)
let dialects : (string, (n * codec) list) Hashtbl.t = Hashtbl.create 16
let enum_tbl : (string, enum) Hashtbl.t = Hashtbl.create 300
let get_dialect name = if name = "-" then None else
  Some (List.rev (try Hashtbl.find dialects name with Not_found -> failwith ("no dialect " ^ name)))

let show_codec c =
  Printf.sprintf "%s %s %s %s" (string_of_n c.c_crc) (string_of_n c.c_size_normal) (string_of_n c.c_size_ext)
    (String.concat "," (List.map (fun f -> string_of_int (int_of_nat f.fd_index)) c.c_fields))

(* ---- frames ---- *)
let parse_msg s =
  match split '~' s with
  | ["R"; id; p] -> MRaw (n_of_string id, bytes_of_hex p)
  | ["D"; id; v] -> MDec (n_of_string id, parse_value v)
  | _ -> failwith ("bad msg " ^ s)
let show_msg = function
  | MRaw (id, p) -> Printf.sprintf "R~%s~%s" (string_of_n id) (hex_of_bytes p)
  | MDec (id, v) -> Printf.sprintf "D~%s~%s" (string_of_n id) (show_value v)
let parse_frame s =
  match split '|' s with
  | [v2; inc; cmp; seq; sys; comp; m; ck; link; ts; sg] ->
    { f_v2 = b01 v2; f_inc = n_of_string inc; f_cmp = n_of_string cmp; f_seq = n_of_string seq;
      f_sys = n_of_string sys; f_comp = n_of_string comp; f_msg = parse_msg m; f_ck = n_of_string ck;
      f_link = n_of_string link; f_ts = n_of_string ts;
      f_sig = if sg = "nil" then None else Some (bytes_of_hex sg) }
  | _ -> failwith ("bad frame " ^ s)
let show_frame f =
  String.concat "|" [ (if f.f_v2 then "1" else "0"); string_of_n f.f_inc; string_of_n f.f_cmp;
    string_of_n f.f_seq; string_of_n f.f_sys; string_of_n f.f_comp; show_msg f.f_msg; string_of_n f.f_ck;
    string_of_n f.f_link; string_of_n f.f_ts;
    (match f.f_sig with None -> "nil" | Some s -> hex_of_bytes s) ]

let parse_chunks s =
  List.map (fun c -> if String.length c > 0 && c.[0] = '!' then
                       Fail (n_of_string (String.sub c 1 (String.length c - 1)))
                     else Data (bytes_of_hex c)) (split ',' s)
let show_rres = function
  | RFrame f -> "F(" ^ show_frame f ^ ")"
  | RParse _ -> "P"
  | RTransport e -> "T" ^ string_of_n e

let show_res show = function
  | Ok a -> "ok " ^ show a
  | Err _ -> "err"
  | Panic -> "panic"

let key_opt s = if s = "-" then None else Some (bytes_of_hex s)

let handle (fields : string list) : string =
  match fields with
  | ["x25"; h] -> string_of_n (x25_sum (bytes_of_hex h))
  | ["crcspec"; h] -> string_of_n (mcrf4xx (bytes_of_hex h))
  | ["sha"; h] -> hex_of_bytes (sha256 (bytes_of_hex h))
  | ["crc"; gs] -> show_res (fun c -> string_of_n c.c_crc) (initialize (parse_gostruct gs))
  | ["init"; gs] -> show_res show_codec (initialize (parse_gostruct gs))
  | ["def"; dname; id; gs] ->
    (match initialize (parse_gostruct gs) with
     | Ok c ->
       let cur = try Hashtbl.find dialects dname with Not_found -> [] in
       Hashtbl.replace dialects dname ((n_of_string id, c) :: cur);
       "ok " ^ string_of_n c.c_crc
     | Err _ -> "err" | Panic -> "panic")
  | ["mwrite"; gs; v2; v] ->
    (match initialize (parse_gostruct gs) with
     | Ok c -> show_res hex_of_bytes (msg_write c (b01 v2) (parse_value v))
     | _ -> "initerr")
  | ["mread"; gs; v2; p] ->
    (match initialize (parse_gostruct gs) with
     | Ok c -> show_res show_value (msg_read c (b01 v2) (bytes_of_hex p))
     | _ -> "initerr")
  | ["mreadbuf"; gs; v2; backing; len] ->
    (match initialize (parse_gostruct gs) with
     | Ok c -> hex_of_bytes (read_backing_after c (b01 v2) (bytes_of_hex backing) (nat_of_int (int_of_string len)))
     | _ -> "initerr")
  | ["fwrite"; dname; fr] ->
    let (r, f') = frame_write (get_dialect dname) (parse_frame fr) in
    (match r with
     | Ok bs -> "ok " ^ hex_of_bytes bs ^ " " ^ show_frame f'
     | Err _ -> "err" | Panic -> "panic")
  | ["fread"; dname; key; chunks] ->
    let cfg = { r_dialect = get_dialect dname; r_inkey = key_opt key } in
    let s = { s_buf = []; s_rest = parse_chunks chunks } in
    let rs = read_all (S (stream_left s)) cfg N0 s in
    String.concat " " (List.map show_rres rs)
  | ["freadc"; dname; key; chunks] ->
    let cfg = { r_dialect = get_dialect dname; r_inkey = key_opt key } in
    let s = { s_buf = []; s_rest = parse_chunks chunks } in
    let rs = read_all_c (S (stream_left s)) cfg N0 s in
    String.concat " " (List.map (fun (r, c) -> show_rres r ^ "/" ^ string_of_int (int_of_nat c)) rs)
  | ["winit"; ver; sys; comp; key] ->
    show_res string_of_n (writer_init (n_of_string ver) (n_of_string sys) (n_of_string comp) (b01 key))
  | ["swrite"; v2; sys; comp; link; key; dname; ops] ->
    let cfg = { w_v2 = b01 v2; w_sys = n_of_string sys; w_comp = n_of_string comp; w_link = n_of_string link;
                w_key = key_opt key; w_dialect = get_dialect dname } in
    let st = ref N0 in
    let outs = List.map (fun op ->
      match split '@' op with
      | [m; now] ->
        let (st', r) = stream_write cfg !st (parse_msg m) (n_of_string now) in
        st := st'; show_res hex_of_bytes r
      | _ -> failwith "bad swrite op") (split ' ' ops) in
    String.concat ";" outs
  | ["lookup"; dname; id] ->
    (match get_dialect dname with
     | None -> "nodialect"
     | Some d -> (match dlookup d (n_of_string id) with Some c -> "some " ^ string_of_n c.c_crc | None -> "none"))
  | ["dinit"; msgs] ->
    let ms = List.map (fun m -> match split '=' m with
                                | [id; gs] -> (n_of_string id, parse_gostruct gs)
                                | _ -> failwith "bad dinit") (split ' ' msgs) in
    (match dialect_init ms with Ok _ -> "ok" | Err _ -> "err" | Panic -> "panic")
  | ["forward"; dname; key; wdname; h] ->
    (* one hop: read one frame (reader with dname/key), write it unchanged (writer with wdname) *)
    let cfg = { r_dialect = get_dialect dname; r_inkey = key_opt key } in
    let s = { s_buf = []; s_rest = [Data (bytes_of_hex h)] } in
    let ((r, _), _) = reader_read cfg N0 s in
    (match r with
     | RFrame f ->
       let (w, f') = frame_write (get_dialect wdname) f in
       "F(" ^ show_frame f ^ ") -> " ^ (match w with Ok bs -> "ok " ^ hex_of_bytes bs | Err _ -> "err" | Panic -> "panic")
     | other -> show_rres other)
  | ["fixframe"; dname; key; fr] ->
    show_res show_frame (fix_frame (get_dialect dname) (key_opt key) (parse_frame fr))
  | ["tlogw"; dname; budget; entries] ->
    let es = List.map (fun t -> match split '#' t with
                                 | [ts; fr] -> { e_time = z_of_string ts; e_frame = parse_frame fr }
                                 | _ -> failwith "bad entry") (split ' ' entries) in
    (* the oracle: a number n = the first n underlying writes succeed, all later ones fail;
       or a string of 0/1 prefixed by 'o' = outcome of each underlying write in turn *)
    let oracle = if String.length budget > 0 && budget.[0] = 'o'
                 then List.init (String.length budget - 1) (fun i -> budget.[i + 1] = '1')
                 else List.init (int_of_string budget) (fun _ -> true) in
    let (rs, file) = tlog_write_all (get_dialect dname) oracle [] es in
    String.concat "," (List.map (function Ok _ -> "ok" | Err _ -> "err" | Panic -> "panic") rs) ^ "|" ^ hex_of_bytes file
  | ["tlogr"; dname; n; h] ->
    let cfg = { r_dialect = get_dialect dname; r_inkey = None } in
    let rs = tlog_read_n (nat_of_int (int_of_string n)) cfg N0 (List.map (fun b -> B b) (bytes_of_hex h)) in
    String.concat " " (List.map (function
      | TEntry e -> "E(" ^ string_of_z e.e_time ^ "#" ^ show_frame e.e_frame ^ ")"
      | TErr _ -> "X") rs)
  | ["edef"; key; bm; bound; labels; values] ->
    let ls = if labels = "-" then [] else List.map (fun t -> match split '=' t with
               | [v; n] -> (n_of_string v, bytes_of_hex n) | _ -> failwith "bad label") (split ',' labels) in
    let vs = if values = "-" then [] else List.map (fun t -> match split '=' t with
               | [n; v] -> (bytes_of_hex n, n_of_string v) | _ -> failwith "bad value") (split ',' values) in
    Hashtbl.replace enum_tbl key { en_bitmask = b01 bm; en_bound = nat_of_int (int_of_string bound); en_labels = ls; en_values = vs };
    "ok"
  | ["ert"; key; v] ->
    let en = Hashtbl.find enum_tbl key in
    let txt = marshal_text en (n_of_string v) in
    (match unmarshal_text en txt with
     | Some back -> hex_of_bytes txt ^ " -> " ^ string_of_n back
     | None -> hex_of_bytes txt ^ " -> err")
  | ["eparse"; key; h] ->
    let en = Hashtbl.find enum_tbl key in
    (match unmarshal_text en (bytes_of_hex h) with Some v -> "ok " ^ string_of_n v | None -> "err")
  | ["chanev"; dname; key; h; tail] | ["chanevp"; dname; key; h; tail] ->
    (* per-channel event stream: open, one event per read result, close on the transport error *)
    let cfg = { r_dialect = get_dialect dname; r_inkey = key_opt key } in
    let chunks = (if h = "-" then [] else [Data (bytes_of_hex h)]) @
                 (if tail = "-" then [] else [Fail (n_of_string (String.sub tail 1 (String.length tail - 1)))]) in
    let s = { s_buf = []; s_rest = chunks } in
    let rs = read_all (S (stream_left s)) cfg N0 s in
    let evs = List.concat_map (function
      | RFrame f -> ["F(" ^ show_frame f ^ ")"]
      | RParse _ -> ["P"]
      | RTransport e -> if int_of_n e = 0 then [] else ["C"]) rs in
    (* after a transport error the channel is closed: nothing later belongs to it *)
    let rec upto = function [] -> [] | "C" :: _ -> ["C"] | x :: t -> x :: upto t in
    String.concat " " ("O" :: upto evs)
  | ["fanchk"; mode; expected; obs] ->
    let nl s = if s = "-" then [] else List.map n_of_string (split ',' s) in
    let exp = List.map nl (split ';' expected) in
    let o = nl obs in
    let ok = (match mode with
      | "exact" -> fan_ok exp o
      | "sub" -> fan_sub_ok exp o
      | "eq" -> (match exp with [e] -> list_eqb_nat e o | _ -> false)
      | _ -> failwith "bad fanchk mode") in
    if ok then "ok" else "violated"
  | ["expect"; v] | ["expect"; v; _] -> v
  | ["provider"; first; script] | ["lives"; first; script] ->
    let sc = List.map (fun t -> if t = "F" then ConnFail
                                else ConnOk (nat_of_int (int_of_string (String.sub t 1 (String.length t - 1))))) (split ' ' script) in
    let tr = provider (b01 first) sc in
    let only_oc = (List.hd fields = "lives") in
    String.concat " " (List.filter_map (function
      | Attempt -> if only_oc then None else Some "A"
      | Backoff -> if only_oc then None else Some "B"
      | ChOpen -> Some "O"
      | ChClose c -> Some ("C" ^ string_of_int (int_of_nat c))) tr)
  | ["hb"; disable; dname; systype; ap; ver] ->
    let c = hbcfg_of (b01 disable) (get_dialect dname) (n_of_string systype) (n_of_string ap) (n_of_string ver) in
    (match hb_ticks c (S O) with
     | [] -> "off"
     | m :: _ -> "on " ^ show_value m)
  | ["srobs"; enable; dname; freq; nchan; ops] ->
    let cfg = srcfg_of (b01 enable) (get_dialect dname) (n_of_string freq) in
    let ins = List.map (fun t -> match split ':' t with
      | ["H"; now; ch; sys; comp; ap] -> InHb (n_of_string now, ((n_of_string ch, n_of_string sys), n_of_string comp), n_of_string ap)
      | ["O"; ch] -> InOther (n_of_string ch)
      | ["T"; now] -> InTick (n_of_string now)
      | _ -> failwith ("bad srin " ^ t)) (split ' ' ops) in
    String.concat " ; " (List.init (int_of_string nchan) (fun c ->
      let (wire, evs) = sr_observe cfg (n_of_int c) ins in
      Printf.sprintf "wire=%s ev=%s"
        (String.concat "|" (List.map show_value wire))
        (String.concat " " (List.map (function EvReq (s, k) -> "S" ^ string_of_n s ^ "." ^ string_of_n k | EvFrame -> "F") evs))))
  | ["genmsg"; name; id; fields] ->
    let fs = if fields = "-" then [] else List.map (fun t -> match split ':' t with
      | [ty; nm; en; ext] -> { xf_type = bytes_of_hex ty; xf_name = bytes_of_hex nm; xf_enum = bytes_of_hex en; xf_ext = b01 ext }
      | _ -> failwith ("bad xfield " ^ t)) (split '|' fields) in
    (match process_message { xm_name = bytes_of_hex name; xm_id = n_of_string id; xm_fields = fs } with
     | Ok g ->
       let crc = (match initialize g with Ok c -> string_of_n c.c_crc | Err _ -> "err" | Panic -> "panic") in
       Printf.sprintf "ok %s %s %s" (show_gostruct g) id crc
     | Err _ -> "err" | Panic -> "panic")
  | ["genenum"; v] ->
    (match parse_enum_value (bytes_of_hex v) with Some n -> string_of_n n | None -> "err")
  | ["gendialect"; root; files] ->
    let fl = List.map (fun t -> match String.split_on_char ';' t with
      | [addr; incs; ver; names] ->
        { xfl_addr = bytes_of_hex addr; xfl_includes = List.map bytes_of_hex (split ',' incs);
          xfl_version = bytes_of_hex ver; xfl_msgs = List.map bytes_of_hex (split ',' names) }
      | _ -> failwith ("bad xfile " ^ t)) (split ' ' files) in
    (match dialect_of (nat_of_int 64) fl (bytes_of_hex root) with
     | None -> "err"
     | Some (v, names) ->
       Printf.sprintf "%s ok %s" (string_of_z v)
         (String.concat "," (List.map (fun n -> match def_to_go n with
            | Ok g -> "Message" ^ String.concat "" (List.map (fun b -> String.make 1 (Char.chr (int_of_n b))) g)
            | _ -> "?") names)))
  | ["idle"; d; arr] ->
    string_of_n (idle_close (n_of_string d) N0 (List.map n_of_string (split ' ' arr)))
  | ["tcalls"; ops] ->
    let os = List.map (fun t -> if t = "R" then IoRead else IoWrite) (split ' ' ops) in
    String.concat " " (List.map (function SetReadDeadline -> "SR" | SetWriteDeadline -> "SW" | DoRead -> "R" | DoWrite -> "W") (timed_calls os))
  | ["tsmono"; ops] ->
    let ts = List.filter_map (fun op -> match split '@' op with
                                | [_; now] -> if now = "0" then None else Some (n_of_string now)
                                | _ -> None) (split ' ' ops) in
    if nondec ts then "mono" else "decreasing"
  | op :: _ -> failwith ("unknown op " ^ op)
  | [] -> ""

let () =
  let ic = if Array.length Sys.argv > 1 then open_in Sys.argv.(1) else stdin in
  let oc = if Array.length Sys.argv > 2 then open_out Sys.argv.(2) else stdout in
  (try
    while true do
      let line = input_line ic in
      let out = try handle (String.split_on_char '\t' line)
                with Failure m -> "DRIVER-ERROR " ^ m
                   | Stack_overflow -> "DRIVER-ERROR stack" in
      output_string oc out; output_char oc '\n'
    done
  with End_of_file -> ());
  close_out oc
